/*
 * C03 (sequential half) — small-block allocator under ESX (DESIGN §5 C03).
 *
 * source/allocator_sba.c is #included into this translation unit (white-box access to the bins; the
 * archive member of the same name is then not linked).  The two environment calls the file makes for
 * its pages — posix_memalign() and free() — are redirected by #define to a deterministic harness page
 * pool: fixed-address arena, one poisoned guard gap behind every page, LIFO reuse, live-page counter,
 * freed pages poisoned through ASan's manual-poisoning interface (a read or write of a page that went
 * back "to the OS" is an ASan report, which the engine turns into a violation naming the history).
 * Parent allocator = galloc (counting, LIFO, red zones).
 *
 * Alphabet (slots p0..p8, sizes of the active profile):
 *   acquire(size) / calloc(n,size)  into the lowest free slot
 *   realloc(slot,new) for every live slot and every new size incl. 0, realloc(NULL,0,new) for the lowest free slot
 *   release(slot), bytes_active, bytes_reserved
 *
 * Oracle after EVERY operation (clause names in quotes):
 *   "block-damaged"   every live block still holds its per-(slot,fill-time) pattern over its REQUESTED size
 *   "alignment"       16-byte alignment;  "overlap"  [ptr,ptr+requested) pairwise disjoint
 *   "not-in-page" / "parent-block" / "small-not-pooled" / "large-not-forwarded"
 *                     a block lies completely in the payload of a live pool page of a big-enough class, or
 *                     is a live parent block of sufficient size; fresh requests <= 512 are pooled, larger
 *                     ones forwarded (allocator.h: "will intercept and handle small allocs, and will forward
 *                     anything larger to the parent allocator")
 *   "realloc-contents" the first min(old,new) bytes survive;  "calloc-zero"
 *   "bytes-active"    == sum of the size classes (bin size of the serving page) of the live small blocks
 *   "bytes-reserved"  == live pool pages * page size (allocator.h: "the current system memory used by the SBA")
 *   "idle-pages" / "idle-reserved"  no live block => at most one page per size class
 *   teardown (after every expansion): release everything (alternating order), idle clauses, destroy, then
 *   "pages-leaked" (pool empty) and "parent-balance" (galloc balance zero)
 *   "page-request" / "page-free-invalid"  the file asks the OS for something else than one aligned page, or
 *                     frees something that is not a live page (double free of a page)
 */
#include "esx.h"
#include "galloc.h"

#include <aws/common/allocator.h>
#include <aws/common/array_list.h>
#include <aws/common/assert.h>
#include <aws/common/macros.h>
#include <aws/common/mutex.h>
#include <stdlib.h>

/* ================================================================ page pool (declared before the include) */
static int h_posix_memalign(void **out, size_t align, size_t size);
static void h_page_free(void *p);

#define posix_memalign h_posix_memalign
#define free h_page_free
#include "allocator_sba.c" /* the working tree's file, found through -I<repo>/source */
#undef posix_memalign
#undef free

#define PAGE ((size_t)AWS_SBA_PAGE_SIZE)
#define HP_WANT_BASE ((uintptr_t)0x500000000000ull)
#define HP_NPAGES 24
#define HP_STRIDE (2 * PAGE) /* page + poisoned guard gap; keeps PAGE alignment */

static uint8_t *hp_base;
static uint8_t hp_state[HP_NPAGES]; /* 0 never handed out, 1 live, 2 freed */
static int hp_stack[HP_NPAGES], hp_nstack, hp_next, hp_live;
static int g_verify; /* oracle active: new transition, or --replay (prefix ops were verified when their state was first reached) */
static int g_new_op; /* 1 while the operation being applied is the NEW transition (not a replayed prefix op) */

static void hp_init_once(void) {
    if (hp_base) return;
    size_t len = (size_t)HP_NPAGES * HP_STRIDE;
    void *p = mmap((void *)HP_WANT_BASE, len, PROT_READ | PROT_WRITE, MAP_PRIVATE | MAP_ANONYMOUS | MAP_NORESERVE | MAP_FIXED_NOREPLACE, -1, 0);
    if (p == MAP_FAILED) {
        p = mmap(NULL, len + HP_STRIDE, PROT_READ | PROT_WRITE, MAP_PRIVATE | MAP_ANONYMOUS | MAP_NORESERVE, -1, 0);
        if (p == MAP_FAILED) {
            perror("page pool mmap");
            _exit(2);
        }
        p = (void *)(((uintptr_t)p + HP_STRIDE - 1) / HP_STRIDE * HP_STRIDE);
    }
    hp_base = (uint8_t *)p;
}

static void hp_reset(void) {
    hp_init_once();
    GA_POISON(hp_base, (size_t)HP_NPAGES * HP_STRIDE);
    memset(hp_state, 0, sizeof(hp_state));
    hp_nstack = hp_next = hp_live = 0;
}

/* index of the pool page that contains addr, or -1 */
static int hp_index(const void *addr) {
    const uint8_t *a = (const uint8_t *)addr;
    if (!hp_base || a < hp_base || a >= hp_base + (size_t)HP_NPAGES * HP_STRIDE) return -1;
    size_t off = (size_t)(a - hp_base);
    if (off % HP_STRIDE >= PAGE) return -1; /* guard gap */
    return (int)(off / HP_STRIDE);
}
static uint8_t *hp_page(int idx) { return hp_base + (size_t)idx * HP_STRIDE; }

static int h_posix_memalign(void **out, size_t align, size_t size) {
    ESX_CHECK(align == PAGE && size == PAGE, "page-request", "allocator_sba.c asked the OS for %zu bytes aligned to %zu; one page is %zu", size, align, PAGE);
    if (size > PAGE) {
        fprintf(stderr, "sbaseq: page request of %zu bytes cannot be served by the pool\n", size);
        _exit(2);
    }
    int idx, recycled = hp_nstack > 0;
    if (hp_nstack)
        idx = hp_stack[--hp_nstack]; /* LIFO: the page just freed is the next one handed out */
    else {
        if (hp_next >= HP_NPAGES) {
            fprintf(stderr, "sbaseq: page pool exhausted\n");
            _exit(2);
        }
        idx = hp_next++;
    }
    uint8_t *p = hp_page(idx);
    GA_UNPOISON(p, PAGE);
    memset(p, 0xA5, PAGE); /* deterministic non-zero junk */
    hp_state[idx] = 1;
    ++hp_live;
    if (g_new_op) {
        V_COUNT("pages_allocated", 1);
        if (recycled) V_COUNT("pages_allocated_at_recycled_address", 1);
    }
    V_MAXSTAT("max_live_pages", (uint64_t)hp_live);
    *out = p;
    return 0;
}

/* Vacuity counters at the moment a page goes back during a NEW transition (not in destroy).  Only an
 * exhausted page can be dropped (the cursor page is kept), so all its other chunks sat in the free list
 * and have just been purged; the header is still readable here. */
static void hp_count_page_free(const uint8_t *pg) {
    const struct page_header *h = (const struct page_header *)pg;
    V_COUNT("pages_freed", 1);
    if (!h->bin) return;
    size_t per_page = (PAGE - sizeof(struct page_header)) / h->bin->size;
    V_COUNT("freelist_purges", 1);
    V_COUNT("freelist_purged_chunks", per_page - 1);
    if (h->bin->free_chunks.length > 0) V_COUNT("freelist_purges_leaving_other_pages_chunks", 1);
    if (h->bin->page_cursor == NULL) V_COUNT("page_freed_while_bin_has_no_cursor", 1);
}

static void h_page_free(void *ptr) {
    int idx = hp_index(ptr);
    if (idx < 0 || hp_page(idx) != (uint8_t *)ptr || hp_state[idx] != 1) {
        esx_fail("page-free-invalid", "allocator_sba.c released %s as a page (pool index %d, state %d)",
                 idx < 0 ? "an address outside the page pool" : (hp_page(idx) != (uint8_t *)ptr ? "an interior address" : "a page that is not live (double free)"),
                 idx, idx >= 0 ? hp_state[idx] : -1);
        return;
    }
    if (g_new_op) hp_count_page_free((const uint8_t *)ptr);
    GA_POISON(ptr, PAGE);
    hp_state[idx] = 2;
    hp_stack[hp_nstack++] = idx;
    --hp_live;
}

/* ================================================================ configuration / profiles */
#define MAXSLOT 9
static int NSLOT = MAXSLOT; /* slots in use by the active profile (never more blocks than the depth bound) */
#define MAXSZ 10

struct profile {
    const char *name;
    int ns;
    size_t sizes[MAXSZ];
    int multi_threaded;
    int galloc_mode;      /* parent realloc: 0 none (allocator.c emulates), 1 in place when it fits, 2 always moves */
    int depth_quick, depth_thorough; /* 0 = not run in that tier */
    int page_sizes;       /* bit 0: run in the default-page build, bit 1: run in the 2048 build */
    int with_calloc;      /* calloc(n,size) symbols in the alphabet (same successor states as acquire) */
    int depth_dbg;        /* depth in the DEBUG_BUILD harness (library assertions live), 0 = not run there */
    int addr_canon;       /* 1: canon keeps real pool addresses and the pool's LIFO stack (see m_canon) */
};
static const struct profile *g_p;
static char g_name[80];

/* calloc(n, size) factorisations of the alphabet sizes */
static void calloc_split(size_t total, size_t *n, size_t *sz) {
    static const size_t t[][3] = {{1, 1, 1},     {32, 2, 16},   {33, 3, 11},   {64, 4, 16},   {65, 5, 13},   {128, 8, 16},
                                  {256, 16, 16}, {257, 1, 257}, {512, 8, 64},  {513, 27, 19}, {700, 7, 100}, {0, 0, 0}};
    for (int i = 0; t[i][0]; ++i)
        if (t[i][0] == total) {
            *n = t[i][1];
            *sz = t[i][2];
            return;
        }
    *n = 1;
    *sz = total;
}

/* ================================================================ objects + reference */
static struct aws_allocator *g_sba;
struct slot {
    int live;
    uint8_t *ptr;
    size_t req;   /* requested size */
    size_t cls;   /* size class (bin size of the serving page) or 0 = served by the parent */
    uint32_t key; /* pattern key: slot and fill time */
};
static struct slot sl[MAXSLOT];
static int g_step;         /* operations applied since reset */

static inline uint8_t pat(uint32_t key, size_t i) {
    uint32_t x = key * 0x9E3779B1u + (uint32_t)i * 0x85EBCA6Bu;
    return (uint8_t)(0x80u | (x >> 25)); /* high bit set: user bytes can never spell the SBA page tag */
}
static void fill(int s) {
    sl[s].key = (uint32_t)(s * 64 + (g_step & 63) + 1);
    for (size_t i = 0; i < sl[s].req; ++i) sl[s].ptr[i] = pat(sl[s].key, i);
}
/* first damaged offset or -1 */
static long verify_prefix(const uint8_t *p, uint32_t key, size_t n) {
    for (size_t i = 0; i < n; ++i)
        if (p[i] != pat(key, i)) return (long)i;
    return -1;
}

static struct small_block_allocator *impl(void) { return (struct small_block_allocator *)g_sba->impl; }

static int lowest_free(void) {
    for (int i = 0; i < NSLOT; ++i)
        if (!sl[i].live) return i;
    return -1;
}
static int nlive(void) {
    int n = 0;
    for (int i = 0; i < NSLOT; ++i) n += sl[i].live;
    return n;
}

/* ---- ops ----
 *   [0, ns)            acquire(size)        [ns, 2ns)   calloc (if the profile has it)
 *   OP_ACTIVE, OP_RESERVED
 *   OP_SLOT + s*(ns+2) + 0        release(p_s)
 *   OP_SLOT + s*(ns+2) + 1 + k    realloc(p_s, sizes[k])   (k == ns: new size 0)
 * Numbers do not depend on the number of slots in use, so a token found at one depth replays at any other. */
static int OP_CALLOC, OP_ACTIVE, OP_RESERVED, OP_SLOT, SLOT_STRIDE, NOPS;
static void layout_ops(void) {
    OP_CALLOC = g_p->ns;
    OP_ACTIVE = g_p->with_calloc ? 2 * g_p->ns : g_p->ns;
    OP_RESERVED = OP_ACTIVE + 1;
    OP_SLOT = OP_RESERVED + 1;
    SLOT_STRIDE = g_p->ns + 2;
    NOPS = OP_SLOT + NSLOT * SLOT_STRIDE;
}
/* decode a per-slot op: returns slot, *k = -1 for release, else index of the new size (ns = size 0) */
static int slot_op(int op, int *k) {
    *k = (op - OP_SLOT) % SLOT_STRIDE - 1;
    return (op - OP_SLOT) / SLOT_STRIDE;
}

static void m_reset(void) {
    galloc_reset();
    hp_reset();
    g_new_op = 0;
    g_step = 0;
    memset(sl, 0, sizeof(sl));
    g_sba = aws_small_block_allocator_new(galloc_get(g_p->galloc_mode, 0), g_p->multi_threaded != 0);
    if (!g_sba) {
        fprintf(stderr, "sbaseq: aws_small_block_allocator_new failed\n");
        _exit(2);
    }
}

static bool m_enabled(int op) {
    if (op < OP_ACTIVE) return lowest_free() >= 0;
    if (op < OP_SLOT) return true;
    int k, s = slot_op(op, &k);
    if (sl[s].live) return true;
    return k >= 0 && k < g_p->ns && s == lowest_free(); /* realloc(NULL, 0, new) once, not per empty slot */
}

/* placement of one block: returns the size class observed for it (0 = parent) */
static size_t check_placement(int s, const char *what) {
    uint8_t *p = sl[s].ptr;
    size_t req = sl[s].req;
    ESX_CHECK(((uintptr_t)p & 15u) == 0, "alignment", "%s: p%d (%zu bytes) is not 16-byte aligned (page offset %zu)", what, s, req, (size_t)((uintptr_t)p % PAGE));
    int idx = hp_index(p);
    if (idx >= 0) {
        uint8_t *pg = hp_page(idx);
        ESX_CHECK(hp_state[idx] == 1, "not-in-page", "%s: p%d lies in pool page %d, which is not live (state %d)", what, s, idx, hp_state[idx]);
        if (esx_failed) return 0;
        ESX_CHECK(p >= pg + sizeof(struct page_header) && p + req <= pg + PAGE, "not-in-page",
                  "%s: p%d = page %d + %zu, %zu bytes: leaves the page payload [%zu,%zu)", what, s, idx, (size_t)(p - pg), req, sizeof(struct page_header), PAGE);
        if (esx_failed) return 0;
        const struct page_header *h = (const struct page_header *)pg;
        size_t cls = h->bin ? h->bin->size : 0;
        ESX_CHECK(cls >= req, "class-too-small", "%s: p%d (%zu bytes) is served by size class %zu", what, s, req, cls);
        return cls;
    }
    ESX_CHECK(galloc_is_live(p) && galloc_size_of(p) >= req, "parent-block", "%s: p%d (%zu bytes) is neither in a pool page nor a live parent block of that size", what, s, req);
    return 0;
}

static void check_idle(const char *what) {
    int per_bin[AWS_SBA_BIN_COUNT] = {0};
    for (int i = 0; i < HP_NPAGES; ++i) {
        if (hp_state[i] != 1) continue;
        const struct page_header *h = (const struct page_header *)hp_page(i);
        long b = h->bin ? (long)(h->bin - impl()->bins) : -1;
        if (b >= 0 && b < AWS_SBA_BIN_COUNT) per_bin[b]++;
    }
    for (int b = 0; b < AWS_SBA_BIN_COUNT; ++b)
        ESX_CHECK(per_bin[b] <= 1, "idle-pages", "%s: nothing is live but size class %zu still holds %d pages", what, s_bin_sizes[b], per_bin[b]);
    ESX_CHECK(hp_live <= AWS_SBA_BIN_COUNT, "idle-pages", "%s: nothing is live but %d pages are held", what, hp_live);
    size_t r = aws_small_block_allocator_bytes_reserved(g_sba);
    ESX_CHECK(r <= AWS_SBA_BIN_COUNT * PAGE, "idle-reserved", "%s: nothing is live, bytes_reserved = %zu > %d pages", what, r, AWS_SBA_BIN_COUNT);
}

/* Everything the property says about a quiescent state.  `fresh` = slot whose block has just been handed
 * out and not been written yet (its contents are not compared; everything else applies to it), or -1. */
static void check_all(const char *what, int fresh) {
    size_t expect_active = 0;
    if (!g_verify) return;
    for (int s = 0; s < NSLOT && !esx_failed; ++s) {
        if (!sl[s].live) continue;
        if (s != fresh) {
            long bad = verify_prefix(sl[s].ptr, sl[s].key, sl[s].req);
            ESX_CHECK(bad < 0, "block-damaged", "after %s: live block p%d (%zu bytes, class %zu) changed at offset %ld: 0x%02x, written 0x%02x", what, s, sl[s].req,
                      sl[s].cls, bad, bad >= 0 ? sl[s].ptr[bad] : 0, bad >= 0 ? pat(sl[s].key, (size_t)bad) : 0);
            if (esx_failed) return;
        }
        size_t cls = check_placement(s, what);
        if (esx_failed) return;
        ESX_CHECK(cls == sl[s].cls, "block-rehomed", "after %s: p%d was served by class %zu, its page now says class %zu", what, s, sl[s].cls, cls);
        expect_active += sl[s].cls;
        for (int t = 0; t < s; ++t) {
            if (!sl[t].live) continue;
            bool disjoint = sl[s].ptr + sl[s].req <= sl[t].ptr || sl[t].ptr + sl[t].req <= sl[s].ptr;
            ESX_CHECK(disjoint, "overlap", "after %s: p%d (%zu bytes, class %zu) and p%d (%zu bytes, class %zu) overlap (distance %ld)", what, s, sl[s].req, sl[s].cls, t,
                      sl[t].req, sl[t].cls, (long)(sl[s].ptr - sl[t].ptr));
        }
    }
    if (esx_failed) return;
    size_t active = aws_small_block_allocator_bytes_active(g_sba);
    ESX_CHECK(active == expect_active, "bytes-active", "after %s: bytes_active = %zu, the live small blocks' size classes sum to %zu", what, active, expect_active);
    size_t reserved = aws_small_block_allocator_bytes_reserved(g_sba);
    ESX_CHECK(reserved == (size_t)hp_live * PAGE, "bytes-reserved", "after %s: bytes_reserved = %zu but %d pages (%zu bytes) are held", what, reserved, hp_live, (size_t)hp_live * PAGE);
    if (!esx_failed && nlive() == 0) {
        check_idle(what);
        if (g_new_op && hp_live > 0) V_COUNT("idle_states_with_retained_page", 1);
    }
}

/* white-box snapshot used only for the vacuity counters */
struct wb {
    size_t nfree[AWS_SBA_BIN_COUNT], nactive[AWS_SBA_BIN_COUNT];
    int pages;
};
static void wb_take(struct wb *w) {
    for (int b = 0; b < AWS_SBA_BIN_COUNT; ++b) {
        w->nfree[b] = impl()->bins[b].free_chunks.length;
        w->nactive[b] = impl()->bins[b].active_pages.length;
    }
    w->pages = hp_live;
}
static void wb_count(const struct wb *a, const struct wb *b, int is_alloc) {
    if (!g_new_op) return;
    for (int i = 0; i < AWS_SBA_BIN_COUNT; ++i) {
        if (b->nactive[i] > a->nactive[i]) V_COUNT("page_exhausted_moved_to_active_list", 1);
        if (is_alloc && b->nfree[i] < a->nfree[i]) V_COUNT("alloc_reused_free_chunk", 1);
    }
}

static void m_opname(int op, char *buf, size_t cap);

static void pooled_or_forwarded(size_t size, size_t cls, const char *what) {
    if (size <= s_max_bin_size)
        ESX_CHECK(cls != 0, "small-not-pooled", "%s: a fresh %zu-byte block was not served from a size class", what, size);
    else
        ESX_CHECK(cls == 0, "large-not-forwarded", "%s: a fresh %zu-byte block was served from size class %zu", what, size, cls);
}

static void m_apply(int op) {
    char nm[96];
    m_opname(op, nm, sizeof(nm));
    g_new_op = !esx_in_replay; /* (--replay applies every step as a new transition: all of them are verified) */
    g_verify = g_new_op;
    struct wb w0, w1;
    int kk = 0;
    wb_take(&w0);
    ++g_step;
    if (op < OP_ACTIVE) {
        int s = lowest_free(), is_calloc = g_p->with_calloc && op >= OP_CALLOC;
        size_t size = g_p->sizes[op % g_p->ns];
        uint8_t *p;
        if (is_calloc) {
            size_t n, sz;
            calloc_split(size, &n, &sz);
            p = (uint8_t *)aws_mem_calloc(g_sba, n, sz);
        } else
            p = (uint8_t *)aws_mem_acquire(g_sba, size);
        wb_take(&w1);
        wb_count(&w0, &w1, 1);
        ESX_CHECK(p != NULL, "null-result", "%s returned NULL", nm);
        if (esx_failed) return;
        if (g_new_op && size > s_max_bin_size) V_COUNT("large_allocs", 1);
        if (g_new_op && is_calloc && hp_index(p) >= 0 && w1.pages == w0.pages) V_COUNT("calloc_on_used_page", 1);
        sl[s].live = 1;
        sl[s].ptr = p;
        sl[s].req = size;
        sl[s].cls = check_placement(s, nm);
        if (esx_failed) return;
        pooled_or_forwarded(size, sl[s].cls, nm);
        if (esx_failed) return;
        /* the others must be intact and disjoint from the new block BEFORE we write into it */
        check_all(nm, s);
        if (esx_failed) return;
        if (is_calloc) {
            long nz = -1;
            for (size_t i = 0; i < size && nz < 0; ++i)
                if (p[i]) nz = (long)i;
            ESX_CHECK(nz < 0, "calloc-zero", "%s: byte %ld of the block is 0x%02x", nm, nz, nz >= 0 ? p[nz] : 0);
            if (esx_failed) return;
        }
        fill(s); /* writes the whole requested size: ASan reports if any of it is not ours */
    } else if (op < OP_SLOT) {
        /* bytes_active / bytes_reserved: the observation itself is part of check_all */
        check_all(nm, -1);
    } else if (slot_op(op, &kk) >= 0 && kk >= 0) {
        int s = slot_op(op, &kk), k = kk;
        size_t newsize = k < g_p->ns ? g_p->sizes[k] : 0;
        struct slot old = sl[s];
        void *ptr = old.live ? old.ptr : NULL;
        size_t oldsize = old.live ? old.req : 0;
        int rc = aws_mem_realloc(g_sba, &ptr, oldsize, newsize);
        wb_take(&w1);
        wb_count(&w0, &w1, 0);
        ESX_CHECK(rc == AWS_OP_SUCCESS, "realloc-result", "%s failed (error %d)", nm, aws_last_error());
        if (esx_failed) return;
        if (newsize == 0) {
            ESX_CHECK(ptr == NULL, "realloc-to-zero", "%s left a non-NULL pointer", nm);
            sl[s].live = 0;
            if (g_new_op) V_COUNT("realloc_to_zero", 1);
            check_all(nm, -1);
        } else {
            ESX_CHECK(ptr != NULL, "null-result", "%s returned NULL", nm);
            if (esx_failed) return;
            uint8_t *p = (uint8_t *)ptr;
            size_t keep = oldsize < newsize ? oldsize : newsize;
            bool moved = !old.live || p != old.ptr;
            sl[s].live = 1;
            sl[s].ptr = p;
            sl[s].req = newsize;
            size_t cls = check_placement(s, nm);
            if (esx_failed) return;
            sl[s].cls = cls;
            if (moved)
                pooled_or_forwarded(newsize, cls, nm);
            else
                ESX_CHECK(cls == old.cls, "block-rehomed", "%s kept the address but the class changed %zu -> %zu", nm, old.cls, cls);
            if (esx_failed) return;
            /* contents: min(old,new) bytes of the OLD pattern */
            if (old.live) {
                long bad = verify_prefix(p, old.key, keep);
                ESX_CHECK(bad < 0, "realloc-contents", "%s (%s): byte %ld of the preserved %zu is 0x%02x, was 0x%02x", nm, moved ? "moved" : "in place", bad, keep,
                          bad >= 0 ? p[bad] : 0, bad >= 0 ? pat(old.key, (size_t)bad) : 0);
                if (esx_failed) return;
            }
            if (g_new_op) {
                if (!old.live) V_COUNT("realloc_from_null", 1);
                else if (old.cls && cls && old.cls == cls) {
                    if (moved) V_COUNT("realloc_small_small_same_bin_moved", 1);
                    else V_COUNT("realloc_small_small_same_bin_in_place", 1);
                } else if (old.cls && cls) V_COUNT("realloc_small_small_other_bin", 1);
                else if (old.cls && !cls) V_COUNT("realloc_small_to_large", 1);
                else if (!old.cls && cls) V_COUNT("realloc_large_to_small_moved_into_bin", 1);
                else if (oldsize > s_max_bin_size && newsize > s_max_bin_size) V_COUNT("realloc_large_large", 1);
                else if (oldsize > s_max_bin_size) V_COUNT("realloc_large_to_small_kept_in_parent", 1);
                else if (newsize > s_max_bin_size) V_COUNT("realloc_parent_held_small_to_large", 1);
                else V_COUNT("realloc_parent_held_small_to_small", 1);
            }
            /* others intact and disjoint from the resulting interval before we write into it */
            check_all(nm, s);
            if (esx_failed) return;
            fill(s);
        }
    } else {
        int s = slot_op(op, &kk);
        aws_mem_release(g_sba, sl[s].ptr);
        sl[s].live = 0;
        wb_take(&w1);
        wb_count(&w0, &w1, 0);
        check_all(nm, -1);
    }
    g_new_op = 0;
}

static void m_teardown(void) {
    if (esx_failed || !g_sba) {
        g_sba = NULL;
        return;
    }
    g_new_op = 0;
    g_verify = 1;
    /* release what is left, ascending or descending slot order by parity of the history length */
    for (int i = 0; i < NSLOT && !esx_failed; ++i) {
        int s = (g_step & 1) ? NSLOT - 1 - i : i;
        if (!sl[s].live) continue;
        aws_mem_release(g_sba, sl[s].ptr);
        sl[s].live = 0;
        for (int t = 0; t < NSLOT && !esx_failed; ++t) {
            if (!sl[t].live) continue;
            long bad = verify_prefix(sl[t].ptr, sl[t].key, sl[t].req);
            ESX_CHECK(bad < 0, "block-damaged", "teardown: releasing p%d changed live block p%d (%zu bytes) at offset %ld", s, t, sl[t].req, bad);
        }
    }
    if (!esx_failed) {
        size_t active = aws_small_block_allocator_bytes_active(g_sba);
        ESX_CHECK(active == 0, "bytes-active", "teardown: everything released, bytes_active = %zu", active);
        check_idle("teardown (everything released)");
    }
    if (!esx_failed) {
        aws_small_block_allocator_destroy(g_sba);
        ESX_CHECK(hp_live == 0, "pages-leaked", "after destroy %d pages are still held", hp_live);
        ESX_CHECK(ga.live_blocks == 0, "parent-balance", "after destroy the parent allocator still has %llu live blocks (%llu bytes)", (unsigned long long)ga.live_blocks,
                  (unsigned long long)ga.live_bytes);
    }
    g_sba = NULL;
}

/*
 * Canonical state.  Two states with equal canon have the same futures because
 *  - allocator_sba.c branches only on: a bin's cursor (NULL / offset in its page), the free-chunk list
 *    (which chunk is popped next, which entries a purge removes), page alloc_counts, membership and order
 *    of active_pages, and the (old_size, new_size) pair given to realloc; addresses are used only for
 *    page-base masking and the range test of the purge, both invariant under renaming pages (pages are
 *    disjoint, aligned, separated by a guard gap), so pages are named by first appearance in this walk;
 *  - the harness' verdicts depend on the slot table (requested size, class, location); slots are
 *    interchangeable (acquire takes the lowest free slot, every slot has the same alphabet), so the live
 *    slots are emitted sorted by location.  Block contents are a function of (slot, fill time) chosen by the
 *    harness and never read by the library except to copy them;
 *  - the parent's state is left out: the SBA hands large blocks through and never branches on them (the tag
 *    sniff at the page base of a parent block reads harness bytes with the high bit set, galloc headers or
 *    pointers, none of which can spell the tag); array-list growth is not reachable with 9 slots.
 */
static uint8_t ord_of[HP_NPAGES];
static int ord_next;
static uint8_t page_ord(const void *addr) {
    int idx = hp_index(addr);
    if (idx < 0) return 0xfd;
    if (g_p->addr_canon) return (uint8_t)idx;
    if (ord_of[idx] == 0xff) ord_of[idx] = (uint8_t)ord_next++;
    return ord_of[idx];
}
static size_t put_loc(uint8_t *b, size_t o, const void *addr) {
    int idx = hp_index(addr);
    size_t off = idx >= 0 ? (size_t)((const uint8_t *)addr - hp_page(idx)) : 0xffff;
    b[o++] = page_ord(addr);
    b[o++] = (uint8_t)(off >> 8);
    b[o++] = (uint8_t)off;
    return o;
}
static int key_cmp(const void *a, const void *b) { return memcmp(a, b, 8); }

static size_t m_canon(uint8_t *b, size_t cap) {
    (void)cap;
    size_t o = 0;
    memset(ord_of, 0xff, sizeof(ord_of));
    ord_next = 0;
    struct small_block_allocator *sba = impl();
    for (int i = 0; i < AWS_SBA_BIN_COUNT; ++i) {
        struct sba_bin *bin = &sba->bins[i];
        if (bin->page_cursor) {
            struct page_header *pg = (struct page_header *)s_page_base(bin->page_cursor);
            o = put_loc(b, o, bin->page_cursor);
            b[o++] = (uint8_t)pg->alloc_count;
        } else
            b[o++] = 0xfe;
        b[o++] = (uint8_t)bin->active_pages.length;
        for (size_t k = 0; k < bin->active_pages.length; ++k) {
            struct page_header *pg = ((struct page_header **)bin->active_pages.data)[k];
            b[o++] = page_ord(pg);
            b[o++] = (uint8_t)pg->alloc_count;
        }
        b[o++] = (uint8_t)bin->free_chunks.length;
        for (size_t k = 0; k < bin->free_chunks.length; ++k) o = put_loc(b, o, ((void **)bin->free_chunks.data)[k]);
    }
    uint8_t keys[MAXSLOT][8];
    int n = 0;
    for (int s = 0; s < NSLOT; ++s) {
        if (!sl[s].live) continue;
        uint8_t *k = keys[n++];
        memset(k, 0, 8);
        k[0] = (uint8_t)(sl[s].cls >> 8);
        k[1] = (uint8_t)sl[s].cls;
        if (sl[s].cls) put_loc(k, 2, sl[s].ptr);
        k[5] = (uint8_t)(sl[s].req >> 8);
        k[6] = (uint8_t)sl[s].req;
    }
    qsort(keys, (size_t)n, 8, key_cmp);
    b[o++] = (uint8_t)n;
    memcpy(b + o, keys, (size_t)n * 8);
    o += (size_t)n * 8;
    if (g_p->addr_canon) {
        /* Address-sensitive variant: the renaming above makes a state whose pages sit at recycled addresses equal
         * to the same state on fresh addresses, and BFS then always keeps the (shorter) fresh representative, so
         * "a page is handed out at the address of a page that went back" is never a NEW transition.  This variant
         * keeps real pool indices and the pool's LIFO stack in the canon so that exactly those transitions are
         * explored too (smaller bound; it is a refinement, hence trivially sound). */
        b[o++] = (uint8_t)hp_next;
        b[o++] = (uint8_t)hp_nstack;
        for (int i = 0; i < hp_nstack; ++i) b[o++] = (uint8_t)hp_stack[i];
    }
    return o;
}

static void m_opname(int op, char *buf, size_t cap) {
    if (op < OP_CALLOC) snprintf(buf, cap, "acquire(%zu)", g_p->sizes[op]);
    else if (op < OP_ACTIVE) {
        size_t n, sz;
        calloc_split(g_p->sizes[op - OP_CALLOC], &n, &sz);
        snprintf(buf, cap, "calloc(%zu,%zu)", n, sz);
    } else if (op < OP_SLOT) snprintf(buf, cap, op == OP_ACTIVE ? "bytes_active" : "bytes_reserved");
    else {
        int k, s = slot_op(op, &k);
        if (k < 0) snprintf(buf, cap, "release(p%d)", s);
        else snprintf(buf, cap, "realloc(p%d,%zu)", s, k < g_p->ns ? g_p->sizes[k] : (size_t)0);
    }
}

static struct esx_model model = {
    .reset = m_reset, .enabled = m_enabled, .apply = m_apply, .canon = m_canon, .opname = m_opname, .teardown = m_teardown,
};

/* Profiles.  The full alphabet of ten sizes is explored to a moderate depth; the per-bin page mechanics
 * (exhaustion, turn-over, purge of the free list when a page goes back) need many blocks of ONE class and
 * are explored to depth 9+ with sub-alphabets that keep the branching small. */
#define ALL10 {1, 32, 33, 64, 65, 256, 257, 512, 513, 700}
static const struct profile profiles[] = {
    /* name   ns sizes            mt gm  dq  dt pages calloc dbg */
    {"full", 10, ALL10,            0, 0,  5,  6, 1, 1, 0}, /* default page: every size, every realloc pair */
    {"full", 10, ALL10,            0, 0,  5,  6, 2, 1, 4}, /* 2048-byte page (depth 7 = 2.6e6 states was run once, clean: too slow for the tier) */
    {"full", 10, ALL10,            1, 1,  4,  5, 1, 1, 0}, /* multi_threaded=true: per-bin mutexes taken on one thread */
    {"big",   3, {257, 512, 513},  0, 2,  8,  9, 1, 1, 0}, /* bin 512 + parent: 7 blocks per 4096 page */
    {"big",   3, {257, 512, 513},  0, 2,  9, 10, 2, 1, 8}, /* 3 blocks per 2048 page: turn-over, purge, page reuse within 9 ops */
    {"big",   3, {257, 512, 513},  1, 1,  7,  9, 2, 1, 6},
    {"bigaddr", 2, {512, 513},     0, 2, 10, 12, 2, 0, 0, 1}, /* same, address-sensitive canon: recycled page addresses */
    {"d512",  1, {512},            0, 0, 10, 14, 1, 0, 0}, /* 7 blocks per page: exhaustion at 7, page freed at 14 */
    {"d256",  1, {256},            0, 0, 10, 14, 2, 0, 0},
};

int main(int argc, char **argv) {
    v_init(argc, argv);
    aws_common_library_init(aws_default_allocator());
    int is2k = PAGE == 2048;
    int rc = 0;
    const char *only = getenv("SBASEQ_ONLY"), *dep = getenv("SBASEQ_DEPTH"); /* development aids only: ./check never sets them */
    for (size_t i = 0; i < sizeof(profiles) / sizeof(profiles[0]); ++i) {
        g_p = &profiles[i];
        if (!(g_p->page_sizes & (is2k ? 2 : 1))) continue;
        snprintf(g_name, sizeof(g_name), "sba%zu-%s-%s", PAGE, g_p->multi_threaded ? "mt" : "st", g_p->name);
        model.name = g_name;
        NSLOT = MAXSLOT; /* replay: all slots addressable (op numbers do not depend on NSLOT) */
        layout_ops();
        model.nops = NOPS;
        if (v_replay_token) {
            if (esx_token_is_for(v_replay_token, g_name)) rc |= esx_replay(&model, v_replay_token);
            continue;
        }
        if (only && !strstr(g_name, only)) continue;
        int depth = v_thorough() ? g_p->depth_thorough : g_p->depth_quick;
#ifdef SBASEQ_DEBUG_ONLY
        depth = g_p->depth_dbg;
#endif
        if (dep) depth = atoi(dep);
        if (depth <= 0) continue;
        NSLOT = depth < MAXSLOT ? depth : MAXSLOT;
        layout_ops();
        model.nops = NOPS;
        model.max_depth = depth;
        model.max_states = 20000000ull;
        double t0 = v_now();
        esx_run(&model);
        ESX_CYCLES(&model);
        v_out("INFO %s: page %zu, %d sizes, %d ops, depth %d, %.1f s", g_name, PAGE, g_p->ns, NOPS, depth, v_now() - t0);
    }
    v_finish();
    return (v_sh->viol_count || rc) ? 1 : 0;
}
