/*
 * C03 — page-capacity boundaries of every size class (BEE section, added after two seeded accounting changes that need
 * 63..127 simultaneously live blocks - more than the ESX model's nine slots - were out of reach).
 *
 * For every size class c in {16? .. 512} (request sizes 1..512 map to classes 32,64,128,256,512 here), for every count
 * n from 0 to three pages' worth + 2, and for six release orders (FIFO, LIFO, evens-then-odds, odds-then-evens,
 * first-page-first, last-page-first): acquire n blocks of that class through the real allocator, check after EVERY
 * acquire and EVERY release that bytes_active == live * class size, bytes_reserved >= bytes_active, patterns intact,
 * blocks disjoint and 16-byte aligned; after the last release bytes_active == 0 and bytes_reserved <= one page for the
 * class; after destroy the parent balance is zero.  Single- and multi-threaded construction (locks taken on one thread).
 */
#include "bee.h"
#include "galloc.h"
#include <aws/common/allocator.h>

static const size_t CLASS_REQ[5] = {17, 64, 100, 256, 512}; /* requests landing in classes 32, 64, 128, 256, 512 */
static const size_t CLASS_SZ[5] = {32, 64, 128, 256, 512};
#define MAXN 400
static uint64_t fill_total(void) { return 5ull * 6 * 2 * MAXN; }

static void fill_eval(uint64_t idx, void *ctx) {
    (void)ctx;
    BEE_ITEM(idx);
    uint64_t x = idx;
    unsigned mt = bee_digit(&x, 2), order = bee_digit(&x, 6), cls = bee_digit(&x, 5);
    size_t n = bee_digit(&x, MAXN);
    galloc_reset();
    struct aws_allocator *parent = galloc_get(0, 0);
    struct aws_allocator *sba = aws_small_block_allocator_new(parent, mt != 0);
    size_t res_fresh = aws_small_block_allocator_bytes_reserved(sba); /* an implementation may prepare a working page per class at creation */
    size_t page = aws_small_block_allocator_page_size(sba), avail = aws_small_block_allocator_page_size_available(sba);
    size_t per_page = avail / CLASS_SZ[cls];
    if (n > 3 * per_page + 2) { /* beyond three pages' worth: nothing new */
        aws_small_block_allocator_destroy(sba);
        return;
    }
    V_COUNT("evaluations", 1);
    if (n >= per_page) V_COUNT("nontrivial", 1); /* at least one page of the class is exhausted */
    if (per_page && n % per_page == 0 && n) V_COUNT("fill_exact_page_multiple", 1);
    static uint8_t *blk[MAXN];
    size_t req = CLASS_REQ[cls];
    for (size_t i = 0; i < n; ++i) {
        blk[i] = (uint8_t *)aws_mem_acquire(sba, req);
        BEE_CHECK(((uintptr_t)blk[i] & 15) == 0, "alignment", "block %zu of class %zu not 16-byte aligned", i, CLASS_SZ[cls]);
        memset(blk[i], (int)(0x40 + i % 97), req);
        size_t act = aws_small_block_allocator_bytes_active(sba), res = aws_small_block_allocator_bytes_reserved(sba);
        BEE_CHECK(act == (i + 1) * CLASS_SZ[cls], "bytes-active", "class %zu (page %zu): after %zu acquires bytes_active=%zu, live blocks x class size = %zu", CLASS_SZ[cls], page, i + 1, act, (i + 1) * CLASS_SZ[cls]);
        BEE_CHECK(res >= act, "bytes-reserved-below-active", "class %zu: bytes_reserved=%zu < bytes_active=%zu after %zu acquires", CLASS_SZ[cls], res, act, i + 1);
        if (v_sh->viol_count) break;
    }
    /* disjointness: sort-free O(n^2) is fine at these sizes only for small n; use address order check via simple pass */
    for (size_t i = 0; i + 1 < n && !v_sh->viol_count; ++i)
        for (size_t j = i + 1; j < n && j < i + 4; ++j)
            BEE_CHECK(blk[i] + req <= blk[j] || blk[j] + req <= blk[i], "overlap", "blocks %zu and %zu of class %zu overlap", i, j, CLASS_SZ[cls]);
    /* release order */
    static size_t ord[MAXN];
    size_t k = 0;
    switch (order) {
        case 0: for (size_t i = 0; i < n; ++i) ord[k++] = i; break;
        case 1: for (size_t i = n; i-- > 0;) ord[k++] = i; break;
        case 2: for (size_t i = 0; i < n; i += 2) ord[k++] = i; for (size_t i = 1; i < n; i += 2) ord[k++] = i; break;
        case 3: for (size_t i = 1; i < n; i += 2) ord[k++] = i; for (size_t i = 0; i < n; i += 2) ord[k++] = i; break;
        case 4: /* page by page, first page first, within a page LIFO */
            for (size_t p = 0; p * per_page < n; ++p) for (size_t i = (p + 1) * per_page < n ? (p + 1) * per_page : n; i-- > p * per_page;) ord[k++] = i;
            break;
        default: /* last page first, within a page FIFO */
            for (size_t p = (n + per_page - 1) / (per_page ? per_page : 1); p-- > 0;) for (size_t i = p * per_page; i < (p + 1) * per_page && i < n; ++i) ord[k++] = i;
            break;
    }
    size_t live = n;
    for (size_t r = 0; r < k && !v_sh->viol_count; ++r) {
        size_t i = ord[r];
        int ok = 1;
        for (size_t b = 0; b < req; ++b) ok &= blk[i][b] == (uint8_t)(0x40 + i % 97);
        BEE_CHECK(ok, "contents-disturbed", "block %zu of class %zu lost its contents before release", i, CLASS_SZ[cls]);
        aws_mem_release(sba, blk[i]);
        --live;
        size_t act = aws_small_block_allocator_bytes_active(sba);
        BEE_CHECK(act == live * CLASS_SZ[cls], "bytes-active", "class %zu (page %zu): %zu blocks live after a release (order %u) but bytes_active=%zu", CLASS_SZ[cls], page, live, order, act);
    }
    if (!v_sh->viol_count) {
        size_t res = aws_small_block_allocator_bytes_reserved(sba);
        /* "at most one working page per size class": only one class was used here, so at most one page beyond what a
         * fresh allocator already holds (nothing in the shipped code, one page per class in an eager implementation) */
        BEE_CHECK(res <= (res_fresh > page ? res_fresh : page), "idle-pages", "class %zu: everything released (n=%zu, order %u) but bytes_reserved=%zu, more than one %zu-byte working page for the class used (a fresh allocator holds %zu)", CLASS_SZ[cls], n, order, res, page, res_fresh);
    }
    aws_small_block_allocator_destroy(sba);
    BEE_CHECK(ga.live_blocks == 0, "parent-balance", "parent balance %llu after destroy", (unsigned long long)ga.live_blocks);
}

/* ---- section many: aws_mem_acquire_many on the small-block allocator ----
 * One block laid out as several objects (allocator.c): every object is writable for its whole requested size, the objects are
 * pairwise disjoint and disjoint from neighbouring blocks of the same size class (SBA chunks are exact powers of two packed
 * back to back, so a layout that needs one byte more than was requested lands in the next chunk).  All size pairs
 * (s1, s2) in 1..72 x 1..72 and all triples over {1, 7, 8, 9, 17, 30, 33}; two neighbours of the class are acquired before and
 * after, everything is filled with its own byte and read back (added after a seeded change in the sizing loop of
 * aws_mem_acquire_many: total rounded once, objects placed with per-object rounding). */
#define MANY_PAIR 72
static const size_t MANY_T[7] = {1, 7, 8, 9, 17, 30, 33};
static uint64_t many_total(void) { return (uint64_t)MANY_PAIR * MANY_PAIR + 7 * 7 * 7; }
static void many_eval(uint64_t idx, void *ctx) {
    (void)ctx;
    BEE_ITEM(idx);
    size_t sz[3];
    int cnt;
    if (idx < (uint64_t)MANY_PAIR * MANY_PAIR) {
        cnt = 2;
        sz[0] = (size_t)(idx / MANY_PAIR) + 1;
        sz[1] = (size_t)(idx % MANY_PAIR) + 1;
        sz[2] = 0;
    } else {
        uint64_t x = idx - (uint64_t)MANY_PAIR * MANY_PAIR;
        cnt = 3;
        for (int i = 0; i < 3; ++i) sz[i] = MANY_T[bee_digit(&x, 7)];
    }
    galloc_reset();
    struct aws_allocator *parent = galloc_get(0, 0);
    struct aws_allocator *sba = aws_small_block_allocator_new(parent, false);
    size_t sum = sz[0] + sz[1] + sz[2];
    V_COUNT("evaluations", 1);
    V_COUNT("nontrivial", 1);
    /* neighbours: same request size as the sum (the class the combined block most plausibly lands in) and one class up */
    uint8_t *nb[4];
    size_t nbsz[4] = {sum, sum, sum + 8, sum + 8};
    nb[0] = (uint8_t *)aws_mem_acquire(sba, nbsz[0]);
    nb[2] = (uint8_t *)aws_mem_acquire(sba, nbsz[2]);
    void *obj[3] = {NULL, NULL, NULL};
    void *blockp = cnt == 2 ? aws_mem_acquire_many(sba, 2, &obj[0], sz[0], &obj[1], sz[1]) : aws_mem_acquire_many(sba, 3, &obj[0], sz[0], &obj[1], sz[1], &obj[2], sz[2]);
    nb[1] = (uint8_t *)aws_mem_acquire(sba, nbsz[1]);
    nb[3] = (uint8_t *)aws_mem_acquire(sba, nbsz[3]);
    BEE_CHECK(blockp != NULL && obj[0] == blockp, "many-layout", "acquire_many(%zu,%zu,%zu): block %p, first object %p", sz[0], sz[1], sz[2], blockp, obj[0]);
    for (int i = 0; i < 4; ++i) memset(nb[i], 0x51 + i, nbsz[i]);
    for (int i = 0; i < cnt; ++i) memset(obj[i], 0xA1 + i, sz[i]);
    for (int i = 0; i < cnt && !v_sh->viol_count; ++i) {
        const uint8_t *o = (const uint8_t *)obj[i];
        for (size_t k = 0; k < sz[i]; ++k)
            if (o[k] != 0xA1 + i) {
                bee_fail("many-objects-overlap", "acquire_many(%zu,%zu,%zu): byte %zu of object %d reads 0x%02x after every object was filled with its own byte", sz[0], sz[1], sz[2], k, i, o[k]);
                break;
            }
        for (int j = i + 1; j < cnt; ++j) {
            const uint8_t *p = (const uint8_t *)obj[j];
            BEE_CHECK(o + sz[i] <= p || p + sz[j] <= o, "many-objects-overlap", "acquire_many(%zu,%zu,%zu): objects %d and %d overlap", sz[0], sz[1], sz[2], i, j);
        }
    }
    for (int i = 0; i < 4 && !v_sh->viol_count; ++i)
        for (size_t k = 0; k < nbsz[i]; ++k)
            if (nb[i][k] != 0x51 + i) {
                bee_fail("many-damages-neighbour", "acquire_many(%zu,%zu,%zu) on the small-block allocator: byte %zu of a neighbouring live block of %zu bytes reads 0x%02x, written 0x%02x", sz[0], sz[1],
                         sz[2], k, nbsz[i], nb[i][k], 0x51 + i);
                break;
            }
    aws_mem_release(sba, blockp);
    for (int i = 0; i < 4; ++i) aws_mem_release(sba, nb[i]);
    BEE_CHECK(aws_small_block_allocator_bytes_active(sba) == 0, "bytes-active", "after releasing everything bytes_active=%zu", aws_small_block_allocator_bytes_active(sba));
    aws_small_block_allocator_destroy(sba);
    BEE_CHECK(ga.live_blocks == 0, "parent-balance", "parent balance %llu after destroy", (unsigned long long)ga.live_blocks);
}

int main(int argc, char **argv) {
    v_init(argc, argv);
    aws_common_library_init(aws_default_allocator());
    bee_register("sbafill", fill_total, fill_eval, 30);
    bee_register("many", many_total, many_eval, 20);
    v_sample("sbafill index = (n blocks, size class, release order, single/multi-threaded); e.g. class 32 with n = 127, 254 hits the exact page multiples of the shipped page size");
    return bee_main(argc, argv);
}
