/*
 * C03 — page-capacity boundaries of every size class (BEE section, added after two seeded accounting changes that need
 * 63..127 simultaneously live blocks - more than the ESX model's nine slots - were out of reach).
 *
 * For every size class c in {16? .. 512} (request sizes 1..512 map to classes 32,64,128,256,512 here), for every count
 * n from 0 to three pages' worth + 2, and for six release orders (FIFO, LIFO, evens-then-odds, odds-then-evens,
 * first-page-first, last-page-first): acquire n blocks of that class through the real allocator, check after EVERY
 * acquire and EVERY release that bytes_active == live * class size, bytes_reserved >= bytes_active, patterns intact,
 * blocks disjoint and 16-byte aligned; after the last release bytes_active == 0 and bytes_reserved <= one page for the
 * class; after destroy the parent balance is zero.  Single- and multi-threaded construction (locks taken on one thread).
 */
#include "bee.h"
#include "galloc.h"
#include <aws/common/allocator.h>

static const size_t CLASS_REQ[5] = {17, 64, 100, 256, 512}; /* requests landing in classes 32, 64, 128, 256, 512 */
static const size_t CLASS_SZ[5] = {32, 64, 128, 256, 512};
#define MAXN 400
static uint64_t fill_total(void) { return 5ull * 6 * 2 * MAXN; }

static void fill_eval(uint64_t idx, void *ctx) {
    (void)ctx;
    BEE_ITEM(idx);
    uint64_t x = idx;
    unsigned mt = bee_digit(&x, 2), order = bee_digit(&x, 6), cls = bee_digit(&x, 5);
    size_t n = bee_digit(&x, MAXN);
    galloc_reset();
    struct aws_allocator *parent = galloc_get(0, 0);
    struct aws_allocator *sba = aws_small_block_allocator_new(parent, mt != 0);
    size_t res_fresh = aws_small_block_allocator_bytes_reserved(sba); /* an implementation may prepare a working page per class at creation */
    size_t page = aws_small_block_allocator_page_size(sba), avail = aws_small_block_allocator_page_size_available(sba);
    size_t per_page = avail / CLASS_SZ[cls];
    if (n > 3 * per_page + 2) { /* beyond three pages' worth: nothing new */
        aws_small_block_allocator_destroy(sba);
        return;
    }
    V_COUNT("evaluations", 1);
    if (n >= per_page) V_COUNT("nontrivial", 1); /* at least one page of the class is exhausted */
    if (per_page && n % per_page == 0 && n) V_COUNT("fill_exact_page_multiple", 1);
    static uint8_t *blk[MAXN];
    size_t req = CLASS_REQ[cls];
    for (size_t i = 0; i < n; ++i) {
        blk[i] = (uint8_t *)aws_mem_acquire(sba, req);
        BEE_CHECK(((uintptr_t)blk[i] & 15) == 0, "alignment", "block %zu of class %zu not 16-byte aligned", i, CLASS_SZ[cls]);
        memset(blk[i], (int)(0x40 + i % 97), req);
        size_t act = aws_small_block_allocator_bytes_active(sba), res = aws_small_block_allocator_bytes_reserved(sba);
        BEE_CHECK(act == (i + 1) * CLASS_SZ[cls], "bytes-active", "class %zu (page %zu): after %zu acquires bytes_active=%zu, live blocks x class size = %zu", CLASS_SZ[cls], page, i + 1, act, (i + 1) * CLASS_SZ[cls]);
        BEE_CHECK(res >= act, "bytes-reserved-below-active", "class %zu: bytes_reserved=%zu < bytes_active=%zu after %zu acquires", CLASS_SZ[cls], res, act, i + 1);
        if (v_sh->viol_count) break;
    }
    /* disjointness: sort-free O(n^2) is fine at these sizes only for small n; use address order check via simple pass */
    for (size_t i = 0; i + 1 < n && !v_sh->viol_count; ++i)
        for (size_t j = i + 1; j < n && j < i + 4; ++j)
            BEE_CHECK(blk[i] + req <= blk[j] || blk[j] + req <= blk[i], "overlap", "blocks %zu and %zu of class %zu overlap", i, j, CLASS_SZ[cls]);
    /* release order */
    static size_t ord[MAXN];
    size_t k = 0;
    switch (order) {
        case 0: for (size_t i = 0; i < n; ++i) ord[k++] = i; break;
        case 1: for (size_t i = n; i-- > 0;) ord[k++] = i; break;
        case 2: for (size_t i = 0; i < n; i += 2) ord[k++] = i; for (size_t i = 1; i < n; i += 2) ord[k++] = i; break;
        case 3: for (size_t i = 1; i < n; i += 2) ord[k++] = i; for (size_t i = 0; i < n; i += 2) ord[k++] = i; break;
        case 4: /* page by page, first page first, within a page LIFO */
            for (size_t p = 0; p * per_page < n; ++p) for (size_t i = (p + 1) * per_page < n ? (p + 1) * per_page : n; i-- > p * per_page;) ord[k++] = i;
            break;
        default: /* last page first, within a page FIFO */
            for (size_t p = (n + per_page - 1) / (per_page ? per_page : 1); p-- > 0;) for (size_t i = p * per_page; i < (p + 1) * per_page && i < n; ++i) ord[k++] = i;
            break;
    }
    size_t live = n;
    for (size_t r = 0; r < k && !v_sh->viol_count; ++r) {
        size_t i = ord[r];
        int ok = 1;
        for (size_t b = 0; b < req; ++b) ok &= blk[i][b] == (uint8_t)(0x40 + i % 97);
        BEE_CHECK(ok, "contents-disturbed", "block %zu of class %zu lost its contents before release", i, CLASS_SZ[cls]);
        aws_mem_release(sba, blk[i]);
        --live;
        size_t act = aws_small_block_allocator_bytes_active(sba);
        BEE_CHECK(act == live * CLASS_SZ[cls], "bytes-active", "class %zu (page %zu): %zu blocks live after a release (order %u) but bytes_active=%zu", CLASS_SZ[cls], page, live, order, act);
    }
    if (!v_sh->viol_count) {
        size_t res = aws_small_block_allocator_bytes_reserved(sba);
        /* "at most one working page per size class": only one class was used here, so at most one page beyond what a
         * fresh allocator already holds (nothing in the shipped code, one page per class in an eager implementation) */
        BEE_CHECK(res <= (res_fresh > page ? res_fresh : page), "idle-pages", "class %zu: everything released (n=%zu, order %u) but bytes_reserved=%zu, more than one %zu-byte working page for the class used (a fresh allocator holds %zu)", CLASS_SZ[cls], n, order, res, page, res_fresh);
    }
    aws_small_block_allocator_destroy(sba);
    BEE_CHECK(ga.live_blocks == 0, "parent-balance", "parent balance %llu after destroy", (unsigned long long)ga.live_blocks);
}

int main(int argc, char **argv) {
    v_init(argc, argv);
    aws_common_library_init(aws_default_allocator());
    bee_register("sbafill", fill_total, fill_eval, 30);
    v_sample("sbafill index = (n blocks, size class, release order, single/multi-threaded); e.g. class 32 with n = 127, 254 hits the exact page multiples of the shipped page size");
    return bee_main(argc, argv);
}
