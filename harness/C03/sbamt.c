/*
 * C03 (concurrent half) — small-block allocator created multi-threaded, several threads, under VSX.
 * Schedule points: the per-bin mutexes inside allocator_sba.c.  Parent = galloc (counting).
 */
#include <stddef.h>
#ifdef VSX_FREE
#    define GALLOC_PASSTHROUGH 1
#    include "vsx_free.h"
#else
#    include "vsx.h"
#endif
#include "galloc.h"
#include <aws/common/allocator.h>

static struct aws_allocator *S;
struct blk {
    uint8_t *p;
    size_t n;
    uint8_t seed;
};
#define MAXB 12
static struct blk live[MAXB];
static int nlive_slots;

static void fill(uint8_t *p, size_t n, uint8_t seed) {
    for (size_t i = 0; i < n; ++i) p[i] = (uint8_t)(seed ^ (i * 5));
}
static int okfill(const uint8_t *p, size_t n, uint8_t seed) {
    for (size_t i = 0; i < n; ++i)
        if (p[i] != (uint8_t)(seed ^ (i * 5))) return 0;
    return 1;
}
/* register a block: aligned, disjoint from every other live block (any thread), then fill it */
static int reg(uint8_t *p, size_t n, uint8_t seed) {
    VS_CHECK(p != NULL, "null-block", "allocation of %zu bytes returned NULL", n);
    if (!p) return -1;
    VS_CHECK(((uintptr_t)p & 15) == 0, "alignment", "block %p for %zu bytes is not 16-byte aligned", (void *)p, n);
    for (int i = 0; i < MAXB; ++i)
        if (live[i].p && p < live[i].p + live[i].n && live[i].p < p + n)
            vs_fail("overlap", "new block [%p,+%zu) overlaps live block [%p,+%zu)", (void *)p, n, (void *)live[i].p, live[i].n);
    for (int i = 0; i < MAXB; ++i)
        if (!live[i].p) {
            live[i].p = p;
            live[i].n = n;
            live[i].seed = seed;
            fill(p, n, seed);
            return i;
        }
    return -1;
}
static void verify_all(const char *when) {
    for (int i = 0; i < MAXB; ++i)
        if (live[i].p && !okfill(live[i].p, live[i].n, live[i].seed)) vs_fail("contents-disturbed", "%s: contents of a live %zu-byte block changed", when, live[i].n);
}
static void unreg(int slot) { live[slot].p = NULL; }

static void *t1(void *a) {
    (void)a;
    uint8_t *p = aws_mem_acquire(S, 32);
    int s = reg(p, 32, 0x31);
    verify_all("T1 after acquire(32)");
    unreg(s);
    aws_mem_release(S, p);
    verify_all("T1 after release");
    return NULL;
}
static void *t2(void *a) {
    (void)a;
    uint8_t *p = aws_mem_acquire(S, 32);
    int s1 = reg(p, 32, 0x52);
    uint8_t *q = aws_mem_acquire(S, 20);
    int s2 = reg(q, 20, 0x63);
    verify_all("T2 after two acquires");
    unreg(s1);
    aws_mem_release(S, p);
    verify_all("T2 after first release");
    unreg(s2);
    aws_mem_release(S, q);
    return NULL;
}
static void *t3(void *a) {
    (void)a;
    uint8_t *p = aws_mem_acquire(S, 40);
    int s = reg(p, 40, 0x74);
    void *r = p;
    unreg(s);
    if (aws_mem_realloc(S, &r, 40, 600)) vs_fail("realloc-failed", "realloc 40->600 failed");
    p = r;
    VS_CHECK(okfill(p, 40, 0x74), "realloc-contents", "first 40 bytes changed across realloc 40->600 (small to large)");
    s = reg(p, 600, 0x75);
    verify_all("T3 after realloc to 600");
    unreg(s);
    r = p;
    if (aws_mem_realloc(S, &r, 600, 10)) vs_fail("realloc-failed", "realloc 600->10 failed");
    p = r;
    VS_CHECK(okfill(p, 10, 0x75), "realloc-contents", "first 10 bytes changed across realloc 600->10 (large to small)");
    s = reg(p, 10, 0x76);
    size_t act = aws_small_block_allocator_bytes_active(S);
    /* a block shrunk in place from a large (parent-served) allocation stays a parent block (allocator_sba.c: old_size > new_size
     * returns old_ptr), so this thread contributes nothing; other threads hold at most their size classes */
    VS_CHECK(act <= 64 + 64 + 32 + 512 + 512 + 512, "bytes-active-bounds", "bytes_active=%zu exceeds everything the other threads can hold", act);
    unreg(s);
    aws_mem_release(S, p);
    return NULL;
}
/* churn a 512-byte bin so that pages turn over while another thread uses the same bin */
static void *t4(void *a) {
    (void)a;
    uint8_t *b[3];
    int s[3];
    for (int i = 0; i < 3; ++i) {
        b[i] = aws_mem_acquire(S, 500);
        s[i] = reg(b[i], 500, (uint8_t)(0x80 + i));
    }
    verify_all("T4 after three 500-byte blocks");
    for (int i = 0; i < 3; ++i) {
        unreg(s[i]);
        aws_mem_release(S, b[i]);
    }
    return NULL;
}

static void run_set(int mask) {
    galloc_reset();
    struct aws_allocator *parent = galloc_get(0, 0);
    memset(live, 0, sizeof(live));
    S = aws_small_block_allocator_new(parent, true);
    /* a second allocator, created single-threaded, exists next to the shared one (it is never used): how one allocator
     * synchronises is that allocator's own business (added after a seeded change that kept the lock strategy in file-scope
     * function pointers; with the locks gone there is nothing for the controlled scheduler to interleave, so it is the
     * free-running ThreadSanitizer twin of this scenario that can see it) */
    struct aws_allocator *S2 = aws_small_block_allocator_new(parent, false);
    void *(*fn[4])(void *) = {t1, t2, t3, t4};
    pthread_t th[4];
    for (int i = 0; i < 4; ++i)
        if (mask >> i & 1) pthread_create(&th[i], NULL, fn[i], NULL);
    for (int i = 0; i < 4; ++i)
        if (mask >> i & 1) pthread_join(th[i], NULL);
    VS_CHECK(aws_small_block_allocator_bytes_active(S) == 0, "bytes-active-at-quiescence", "everything released, bytes_active=%zu", aws_small_block_allocator_bytes_active(S));
    size_t page = aws_small_block_allocator_page_size(S);
    VS_CHECK(aws_small_block_allocator_bytes_reserved(S) <= 5 * page, "reserved-at-quiescence", "everything released, bytes_reserved=%zu exceeds one %zu-byte page per size class", aws_small_block_allocator_bytes_reserved(S), page);
    aws_small_block_allocator_destroy(S2);
    aws_small_block_allocator_destroy(S);
    VS_CHECK(ga.live_blocks == 0, "leak", "parent balance %llu after destroy", (unsigned long long)ga.live_blocks);
}
/* Barrier scenario: both threads allocate from the SAME (so far pageless) size class at the same time, then everybody stops;
 * with all blocks live and nobody inside the allocator the accounting must be exact, not merely bounded (added after a
 * seeded change that dropped the bin lock around the page allocation and lost one thread's page) */
static pthread_mutex_t bm = PTHREAD_MUTEX_INITIALIZER;
static pthread_cond_t bc = PTHREAD_COND_INITIALIZER;
static int arrived, go;
static size_t bar_req[2] = {32, 17};
static void *tb(void *a) {
    int me = (int)(intptr_t)a;
    uint8_t *p = aws_mem_acquire(S, bar_req[me]);
    int s = reg(p, bar_req[me], (uint8_t)(0x90 + me));
    uint8_t *q = aws_mem_acquire(S, 500);
    int s2 = reg(q, 500, (uint8_t)(0xA0 + me));
    pthread_mutex_lock(&bm);
    arrived++;
    pthread_cond_broadcast(&bc);
    while (!go) pthread_cond_wait(&bc, &bm);
    pthread_mutex_unlock(&bm);
    verify_all("after the barrier");
    unreg(s);
    aws_mem_release(S, p);
    unreg(s2);
    aws_mem_release(S, q);
    return NULL;
}
static void abar(void) {
    galloc_reset();
    struct aws_allocator *parent = galloc_get(0, 0);
    memset(live, 0, sizeof(live));
    arrived = go = 0;
    S = aws_small_block_allocator_new(parent, true);
    size_t res_fresh = aws_small_block_allocator_bytes_reserved(S); /* pages an eager implementation holds from the start */
    pthread_t th[2];
    for (int i = 0; i < 2; ++i) pthread_create(&th[i], NULL, tb, (void *)(intptr_t)i);
    pthread_mutex_lock(&bm);
    while (arrived < 2) pthread_cond_wait(&bc, &bm);
    pthread_mutex_unlock(&bm);
    size_t act = aws_small_block_allocator_bytes_active(S), res = aws_small_block_allocator_bytes_reserved(S), page = aws_small_block_allocator_page_size(S);
    VS_CHECK(act == 32 + 32 + 512 + 512, "bytes-active-at-barrier", "two 32-class and two 512-class blocks are live and nobody is inside the allocator, bytes_active=%zu (expected 1088)", act);
    VS_CHECK(res >= act && res % page == 0 && res <= res_fresh + 4 * page, "bytes-reserved-at-barrier", "bytes_reserved=%zu with bytes_active=%zu (page %zu, a fresh allocator holds %zu)", res, act, page, res_fresh);
    pthread_mutex_lock(&bm);
    go = 1;
    pthread_cond_broadcast(&bc);
    pthread_mutex_unlock(&bm);
    for (int i = 0; i < 2; ++i) pthread_join(th[i], NULL);
    VS_CHECK(aws_small_block_allocator_bytes_active(S) == 0, "bytes-active-at-quiescence", "everything released, bytes_active=%zu", aws_small_block_allocator_bytes_active(S));
    VS_CHECK(aws_small_block_allocator_bytes_reserved(S) <= 5 * page, "reserved-at-quiescence", "everything released, bytes_reserved=%zu", aws_small_block_allocator_bytes_reserved(S));
    aws_small_block_allocator_destroy(S);
    VS_CHECK(ga.live_blocks == 0, "leak", "parent balance %llu after destroy", (unsigned long long)ga.live_blocks);
}

static void a12(void) { run_set(1 | 2); }
static void a13(void) { run_set(1 | 4); }
static void a24(void) { run_set(2 | 8); }
static void a44(void) { run_set(8 | 1); }
static void a123(void) { run_set(1 | 2 | 4); }

int main(int argc, char **argv) {
    v_init(argc, argv);
    aws_common_library_init(aws_default_allocator());
    struct vsx_scenario sc[] = {
        {.name = "SBA-T1T2-same-bin", .run = a12, .bound_quick = 4, .bound_thorough = 5},
        {.name = "SBA-T1T3-realloc-across-classes", .run = a13, .bound_quick = 4, .bound_thorough = 5},
        {.name = "SBA-T2T4-page-turnover", .run = a24, .bound_quick = 4, .bound_thorough = 5},
        {.name = "SBA-T4T1", .run = a44, .bound_quick = 4, .bound_thorough = 5},
        {.name = "SBA-barrier-exact-accounting", .run = abar, .bound_quick = 2, .bound_thorough = 2}, /* bound 3 does not complete within 400000 executions */
        {.name = "SBA-T1T2T3", .run = a123, .bound_quick = 2, .bound_thorough = 3},
    };
    return vsx_main(sc, (int)(sizeof(sc) / sizeof(sc[0])));
}
