LEVEL = "model_checking"
HARNESSES = [
    dict(name="sbaseq", src=["sbaseq.c"], variant="asan", deadline={"quick": 120, "thorough": 900}),
    dict(name="sbaseq2k", src=["sbaseq.c"], variant="asan", cflags=["-DAWS_SBA_PAGE_SIZE=((uintptr_t)2048)"],
         deadline={"quick": 120, "thorough": 900}),
]
ASSUMPTIONS = []
