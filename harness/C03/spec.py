LEVEL = "model_checking"

# Sequential half of C03 (all call histories on one thread).  The concurrent half (VSX) lives next to it
# under other file names.
#
# One source, built twice: with the shipped page size and with -DAWS_SBA_PAGE_SIZE=2048, which
# allocator_sba.c explicitly allows (its only constraint: bins are powers of two below half a page,
# 512 < 1024).  The third build is the 2048 configuration against the Debug library with DEBUG_BUILD, so the
# AWS_ASSERT / AWS_PRECONDITION lines of allocator_sba.c and array_list are live as a second oracle.
_P2K = ["-DAWS_SBA_PAGE_SIZE=((uintptr_t)2048)"]
HARNESSES = [
    dict(name="sbaseq", src=["sbaseq.c"], variant="asan", deadline={"quick": 150, "thorough": 1200}, optional_if_uncompilable="allocator_sba.c"),
    dict(name="sbaseq2k", src=["sbaseq.c"], variant="asan", cflags=_P2K, deadline={"quick": 150, "thorough": 1200}, optional_if_uncompilable="allocator_sba.c"),
    dict(name="sbaseq2k-dbg", src=["sbaseq.c"], variant="asan-dbg", cflags=_P2K + ["-DSBASEQ_DEBUG_ONLY=1"],
         tiers=["thorough"], deadline={"thorough": 600}, optional_if_uncompilable="allocator_sba.c"),
    # page-capacity boundaries of every size class: 0 .. three pages' worth + 2 live blocks x six release orders (BEE)
    dict(name="sbafill", src=["sbafill.c"], variant="asan", deadline={"quick": 150, "thorough": 600}),
    # pages, parent blocks and the control block in ONE first-fit heap that does not scrub memory (what old pages leave
    # behind is an environment answer): every history of small / large-unwritten / large-written acquires and releases
    dict(name="sbaheap", src=["sbaheap.c"], variant="asan", cflags=_P2K, deadline={"quick": 150, "thorough": 900}, optional_if_uncompilable="allocator_sba.c"),
    # the same at the shipped optimisation level with free()/posix_memalign() visible to the compiler under their own names
    # (redirected at link time): what the object code leaves behind in pages it gives back, not what the source says
    dict(name="sbaheap-o2", src=["sbaheap.c"], variant="asan", cflags=_P2K + ["-O2", "-DSBAHEAP_LINKWRAP=1"],
         ldflags=["-Wl,--wrap=free,--wrap=posix_memalign"], deadline={"quick": 150, "thorough": 900}, optional_if_uncompilable="allocator_sba.c"),
    # the same environment with nothing but the public API, linked against the library's own object code (shipped page size
    # and optimisation level): keeps working when allocator_sba.c's private structures are rearranged
    dict(name="sbaheap-bb", src=["sbaheap.c"], variant="asan", cflags=["-DSBAHEAP_BLACKBOX=1"],
         ldflags=["-Wl,--wrap=free,--wrap=posix_memalign"], deadline={"quick": 150, "thorough": 900}),
    # concurrent half: 2-3 threads on a multi-threaded allocator, every interleaving at the per-bin mutexes
    dict(name="sbamt", src=["sbamt.c"], variant="sched", wrap=True, deadline={"quick": 150, "thorough": 1500}),
    # free-running ThreadSanitizer twin of the scenario bodies (DESIGN 4.5): no wrapping, OS scheduler, decides nothing;
    # discharges VSX's proviso that there is no unsynchronised access between schedule points
    dict(name="sbamt-tsan", src=["sbamt.c"], variant="tsan", cflags=["-DVSX_FREE"], tiers=["thorough"], deadline={"thorough": 600}),
]

EXPLANATION = (
    "ESX over acquire/calloc/realloc/release/bytes_active/bytes_reserved on the real allocator_sba.c (#included, its "
    "posix_memalign/free redirected to a deterministic page pool that poisons freed pages; parent = counting galloc). "
    "After every operation: every live block's per-slot pattern over its requested size, 16-byte alignment, pairwise "
    "disjointness, placement (live pool page payload of a big-enough class, or live parent block), realloc prefix, "
    "bytes_active == sum of size classes, bytes_reserved == pages held; with nothing live at most one page per class; "
    "after every expansion: release all, destroy, pool empty, parent balance zero."
)

ASSUMPTIONS = [
    "concurrent half (sbamt): 2-3 threads (same-bin acquire/release, two blocks in different classes, realloc small->large->small, 512-class page turnover) on an allocator created multi_threaded=true over a counting parent; preemption bound 4 (quick) / 6 (thorough) for two threads, 2 / 3 for three; sequentially consistent interleavings at the per-bin mutexes (DESIGN 4.4); a block shrunk in place from a parent-served allocation stays a parent block (allocator_sba.c) and is not counted as active",
    "bounds: 9 slots (never more live blocks than the depth bound); sizes {1,32,33,64,65,256,257,512,513,700}; the full "
    "ten-size alphabet (every (old,new) realloc pair incl. 0 and NULL, ~100 symbols) is explored to depth 5 (quick) / 6 "
    "(thorough) on both page sizes; the page mechanics (exhaustion, turn-over, free-list purge when a page goes back, "
    "page address reuse) are explored with sub-alphabets: {257,512,513} to depth 8 (quick, 4096) / 9 (quick, 2048; bin 512 "
    "turns a 2048-byte page over after 3 blocks) / 9-10 (thorough), also with multi_threaded=true; {512} on 4096 and "
    "{256} on 2048 (7 blocks per page) to depth 10 / 14; {512,513} on 2048 with an address-sensitive canon (real pool "
    "addresses + the pool's LIFO stack, so that pages handed out at recycled addresses are new transitions) to depth "
    "10 / 12.  Bins are independent objects in allocator_sba.c (no shared "
    "state except the parent), so per-bin sub-alphabets lose only cross-bin interleavings deeper than the full-alphabet "
    "bound.  No fixpoint: every model is depth-bounded",
    "multi_threaded=true is exercised on one thread only here (locks taken and released, never contended)",
    "a block's size class is the bin of the page that serves it (read from the page header); a parent block shrunk in "
    "place below 513 bytes stays a parent block and does not count as active",
    "fresh requests <= 512 must be pooled and larger ones forwarded (allocator.h); bytes_reserved must equal the pages "
    "held (allocator.h: 'the current system memory used by the SBA')",
    "states are de-duplicated on a 128-bit hash of the canonical state: per bin cursor offset, active pages with counts, "
    "free-chunk list in order, sorted slot table; pages renamed by first appearance, slots interchangeable",
    "parent (large-block) behaviour is galloc's; array-list growth inside the SBA is not reachable with 9 blocks",
]
