LEVEL = "exploration"
RULE = ("odometer enumeration (no randomness). Section roundtrip: quick = first and last second of every month 1970-01..9999-12 "
        "(2 x 96360) plus every minute of 1970-01-01, 1999-12-31, 2000-02-29, 2100-02-28, 2100-03-01, 9999-12-31; thorough = 00:00:00 "
        "and 23:59:59 of every day 1970-01-01..9999-12-31 (2 x 2932897) plus every second of those six days. Each instant is built with "
        "init_epoch_secs (whole and fractional) and init_epoch_millis (ms in {0,1,500,999}), formatted with to_utc_time_str and "
        "to_utc_time_short_str in RFC 822 / ISO 8601 / ISO 8601 basic, and every text is parsed back through init_from_str and "
        "init_from_str_cursor with the explicit format, the other ISO enum (header: equivalent) and AUTO_DETECT. One evaluation = one "
        "constructor check or one parse of one text with one format enum through one entry point. Section variants: 4 instants x "
        "(3 formats x {+,-} x hh 0..23 x mm 0..59 x {hh:mm, hhmm}; 16 zone designators x 3 formats; 12 fractions x 3 zone tails x 3 "
        "formats; separators T/t/space; 2-digit year; no weekday). non-trivial = (roundtrip) the instant is the first or last second of "
        "a month, lies on a Feb 29, or on Feb 28 / Mar 1 of a year divisible by 100; (variants) the text differs from the canonical "
        "form: non-zero offset, designator other than Z, fraction, separator other than T, 2-digit year, no weekday.")
EXPLANATION = ("oracle = proleptic Gregorian calendar in integer arithmetic inside the harness (civil_from_days / days_from_civil), "
               "cross-checked at every start against a naive day-by-day walk 1970-01-01..9999-12-31; no libc time function is used by "
               "the harness. Violations are rate-limited per worker and clause before they reach the engine (STAT failed_checks counts "
               "all of them) so that a clause failing on every instant cannot exhaust the engine's 100000-line budget and hide another.")

HARNESSES = [
    dict(name="date", src=["date.c"], variant="asan", deadline={"quick": 240, "thorough": 1500}),
    # the same enumeration with the process in a non-UTC zone (POSIX TZ strings, no zone database needed): every text this
    # check formats or feeds carries an explicit designator/offset or is an ISO date-only form (UTC by definition), so the
    # parsed instant must not depend on the process zone (added after a seeded change that sent "+0000" through mktime())
    dict(name="date-est5", src=["date.c"], variant="asan", env={"V_TZ": "EST5"}, deadline={"quick": 240, "thorough": 1500}),
    dict(name="date-ist", src=["date.c"], variant="asan", env={"V_TZ": "IST-5:30"}, tiers=["thorough"], deadline={"thorough": 1500}),
    # free-running ThreadSanitizer twin: two threads, each with objects of its own (harness/common/twin.c; samples, decides nothing)
    dict(name="own-objects-tsan", src=["../common/twin.c"], variant="tsan", cflags=["-DTWIN_C19", "-DVSX_FREE_RUNS=6"], deadline={"quick": 60, "thorough": 120}),
]
ASSUMPTIONS = [
    "TZ=UTC, LC_ALL=C (forced by the harness environment); local-time views and zone-less RFC 822 input under other zones are not decided",
    "instants are whole seconds 1970-01-01T00:00:00Z .. 9999-12-31T23:59:59Z; between the month/day boundaries only six days are walked completely",
    "acceptance is demanded only of the library's own output and of forms the header or the property name: RFC 822 with Z z UT ut UTC utc GMT gmt "
    "or +-hhmm; ISO 8601 extended with Z z or +-hh:mm; ISO 8601 basic with Z z or +-hhmm; ISO fractions .d{1..9} and ,d+ before the zone. "
    "Every other enumerated form (the other offset notation, mixed-case designators, UT/UTC/GMT after ISO text, no zone, fraction in RFC 822, "
    "'t' or space separator, 2-digit year, no weekday) may be accepted or rejected; if it is accepted the header's 'initializes dt to be the "
    "time represented by date_str' is demanded (2-digit year: 19yy or 20yy)",
    "a parsed fraction is only required to leave the whole second right (milliseconds of the result are checked for consistency, not for a value)",
    "as_nanos is compared with as_millis*10^6 only while that fits a uint64_t (instants up to 2554-07-21T23:34:33Z); later instants are counted in "
    "nanos_view_unrepresentable and not judged",
    "formatted text is compared with the canonical English RFC 822 / ISO 8601 rendering of the calendar date (clause format-text)",
]
