/*
 * C19 — date-time formatting and parsing round-trip and agree with the calendar (DESIGN §5 C19).
 *
 * Two BEE sections:
 *   roundtrip : instant -> init_epoch_secs / init_epoch_millis -> to_utc_time_str / to_utc_time_short_str in
 *               RFC 822, ISO 8601, ISO 8601 basic -> init_from_str / init_from_str_cursor (explicit format,
 *               the other ISO enum the header promises to be equivalent, AUTO_DETECT).
 *   variants  : on 4 instants, every numeric offset, the zone designators, fractional seconds, separators,
 *               2-digit years, no weekday.
 *
 * Oracle: proleptic Gregorian calendar computed here with integer arithmetic (civil_from_days /
 * days_from_civil), cross-checked at start-up against a naive day-by-day walk that only knows the month lengths
 * and the 4/100/400 rule.  No libc time function is called by the harness.
 *
 * Violations are rate-limited per (worker process, clause) before they reach the engine, because the engine
 * stops printing any line after 100000 raw violations: a systematic failure of one clause (H6 fails on every
 * instant) must not be able to mask a different clause.  Every failing case is still counted in a STAT.
 */
#include "bee.h"
#include <pthread.h>
#include <aws/common/byte_buf.h>
#include <aws/common/date_time.h>
#include <aws/common/error.h>
#include <math.h>

/* ------------------------------------------------------------------------------------------------------------
 * independent calendar
 * ---------------------------------------------------------------------------------------------------------- */
typedef struct {
    int64_t y;
    int mon; /* 1..12 */
    int d;   /* 1..31 */
    int h, mi, s;
    int wd; /* 0 = Sunday */
} civil_t;

static int64_t floordiv(int64_t a, int64_t b) { return a / b - ((a % b != 0) && ((a < 0) != (b < 0))); }

static int64_t days_from_civil(int64_t y, int m, int d) {
    y -= m <= 2;
    int64_t era = floordiv(y, 400);
    int64_t yoe = y - era * 400;
    int64_t doy = (153 * (m > 2 ? m - 3 : m + 9) + 2) / 5 + d - 1;
    int64_t doe = yoe * 365 + yoe / 4 - yoe / 100 + doy;
    return era * 146097 + doe - 719468;
}
static void civil_from_days(int64_t z, int64_t *y, int *m, int *d) {
    z += 719468;
    int64_t era = floordiv(z, 146097);
    int64_t doe = z - era * 146097;
    int64_t yoe = (doe - doe / 1460 + doe / 36524 - doe / 146096) / 365;
    int64_t yy = yoe + era * 400;
    int64_t doy = doe - (365 * yoe + yoe / 4 - yoe / 100);
    int64_t mp = (5 * doy + 2) / 153;
    *d = (int)(doy - (153 * mp + 2) / 5 + 1);
    *m = (int)(mp < 10 ? mp + 3 : mp - 9);
    *y = yy + (*m <= 2);
}
static civil_t civil_from_secs(int64_t t) {
    civil_t c;
    int64_t days = floordiv(t, 86400);
    int64_t sod = t - days * 86400;
    civil_from_days(days, &c.y, &c.mon, &c.d);
    c.h = (int)(sod / 3600);
    c.mi = (int)(sod / 60 % 60);
    c.s = (int)(sod % 60);
    c.wd = (int)(((days % 7) + 7 + 4) % 7); /* 1970-01-01 was a Thursday */
    return c;
}
static int is_leap(int64_t y) { return (y % 4 == 0) && (y % 100 != 0 || y % 400 == 0); }

#define LAST_DAY 2932896 /* 9999-12-31 */
#define NDAYS (LAST_DAY + 1)
#define NMONTHS ((9999 - 1970 + 1) * 12)

/* naive walk over every day 1970-01-01 .. 9999-12-31: the closed formulas above must agree with it */
static int calendar_selfcheck(void) {
    static const int mlen[12] = {31, 28, 31, 30, 31, 30, 31, 31, 30, 31, 30, 31};
    int64_t y = 1970;
    int m = 1, d = 1, wd = 4;
    for (int64_t z = 0; z <= LAST_DAY; ++z) {
        int64_t cy;
        int cm, cd;
        civil_from_days(z, &cy, &cm, &cd);
        civil_t c = civil_from_secs(z * 86400 + 86399);
        if (cy != y || cm != m || cd != d || days_from_civil(y, m, d) != z || c.wd != wd || c.y != y || c.mon != m ||
            c.d != d || c.h != 23 || c.mi != 59 || c.s != 59) {
            fprintf(stderr, "calendar self-check failed at day %" PRId64 "\n", z);
            return 0;
        }
        wd = (wd + 1) % 7;
        int len = mlen[m - 1] + (m == 2 && is_leap(y));
        if (++d > len) {
            d = 1;
            if (++m > 12) {
                m = 1;
                ++y;
            }
        }
    }
    return y == 10000 && m == 1 && d == 1;
}

/* ------------------------------------------------------------------------------------------------------------
 * reporting
 * ---------------------------------------------------------------------------------------------------------- */
#define PER_WORKER_CLAUSE_LINES 20
static void c19_fail(const char *clause, const char *fmt, ...) {
    static struct {
        char clause[96];
        unsigned n;
    } seen[128];
    static int nseen;
    int k;
    for (k = 0; k < nseen; ++k)
        if (strcmp(seen[k].clause, clause) == 0) break;
    if (k == nseen) {
        if (nseen < 128) {
            snprintf(seen[k].clause, sizeof(seen[k].clause), "%s", clause);
            seen[k].n = 0;
            ++nseen;
        } else {
            k = -1;
        }
    }
    V_COUNT("failed_checks", 1);
    if (k >= 0 && seen[k].n++ >= PER_WORKER_CLAUSE_LINES) {
        V_COUNT("failed_checks_not_forwarded", 1);
        return;
    }
    char msg[2500];
    va_list ap;
    va_start(ap, fmt);
    vsnprintf(msg, sizeof(msg), fmt, ap);
    va_end(ap);
    bee_fail(clause, "%s", msg);
}
#define CHECK(cond, clause, ...)                                                                                 \
    do {                                                                                                         \
        if (!(cond)) c19_fail(clause, __VA_ARGS__);                                                              \
    } while (0)

/* lazily formatted description of the case under evaluation: set the fields, call W() only when a check fails */
static struct {
    int mode;          /* 0 constructor, 1 round-trip parse, 2 variant parse */
    const char *how;   /* constructor / family */
    const char *kind;  /* format kind name */
    const char *text;
    int tn;
    int64_t t;
    unsigned ms;
    int offset_secs;
    const char *fmt;
    int api;
} g_case;
static const char *W(void) {
    static char b[400];
    const char *via = g_case.api ? "init_from_str_cursor" : "init_from_str";
    if (g_case.mode == 0)
        snprintf(b, sizeof(b), "%s of %" PRId64 ".%03u", g_case.how, g_case.t, g_case.ms);
    else if (g_case.mode == 1)
        snprintf(b, sizeof(b), "\"%.*s\" (%s of instant %" PRId64 ") parsed with %s via %s", g_case.tn, g_case.text, g_case.kind, g_case.t, g_case.fmt, via);
    else
        snprintf(b, sizeof(b), "\"%.*s\" (%s, denotes instant %" PRId64 ", offset %+d s) parsed with %s via %s", g_case.tn, g_case.text, g_case.how,
                 g_case.t, g_case.offset_secs, g_case.fmt, via);
    return b;
}
/* lazily formatted clause name */
static const char *CL(const char *fmt, ...) {
    static char b[96];
    va_list ap;
    va_start(ap, fmt);
    vsnprintf(b, sizeof(b), fmt, ap);
    va_end(ap);
    return b;
}

/* ------------------------------------------------------------------------------------------------------------
 * formats
 * ---------------------------------------------------------------------------------------------------------- */
enum { K_RFC, K_RFC_DATE, K_ISO, K_ISO_DATE, K_BASIC, K_BASIC_DATE, NKINDS };
static const char *kind_name[NKINDS] = {"rfc822", "rfc822-date", "iso8601", "iso8601-date", "iso8601-basic", "iso8601-basic-date"};
static const enum aws_date_format kind_fmt[NKINDS] = {AWS_DATE_FORMAT_RFC822,         AWS_DATE_FORMAT_RFC822,
                                                      AWS_DATE_FORMAT_ISO_8601,       AWS_DATE_FORMAT_ISO_8601,
                                                      AWS_DATE_FORMAT_ISO_8601_BASIC, AWS_DATE_FORMAT_ISO_8601_BASIC};
static const int kind_short[NKINDS] = {0, 1, 0, 1, 0, 1};
static const char *fmt_name(enum aws_date_format f) {
    switch (f) {
        case AWS_DATE_FORMAT_RFC822: return "RFC822";
        case AWS_DATE_FORMAT_ISO_8601: return "ISO_8601";
        case AWS_DATE_FORMAT_ISO_8601_BASIC: return "ISO_8601_BASIC";
        default: return "AUTO_DETECT";
    }
}
static const char *WD[7] = {"Sun", "Mon", "Tue", "Wed", "Thu", "Fri", "Sat"};
static const char *MON[12] = {"Jan", "Feb", "Mar", "Apr", "May", "Jun", "Jul", "Aug", "Sep", "Oct", "Nov", "Dec"};

static size_t canonical_text(int kind, const civil_t *c, char *o, size_t cap) {
    switch (kind) {
        case K_RFC:
            return (size_t)snprintf(o, cap, "%s, %02d %s %04d %02d:%02d:%02d GMT", WD[c->wd], c->d, MON[c->mon - 1], (int)c->y, c->h, c->mi, c->s);
        case K_RFC_DATE: return (size_t)snprintf(o, cap, "%s, %02d %s %04d", WD[c->wd], c->d, MON[c->mon - 1], (int)c->y);
        case K_ISO: return (size_t)snprintf(o, cap, "%04d-%02d-%02dT%02d:%02d:%02dZ", (int)c->y, c->mon, c->d, c->h, c->mi, c->s);
        case K_ISO_DATE: return (size_t)snprintf(o, cap, "%04d-%02d-%02d", (int)c->y, c->mon, c->d);
        case K_BASIC: return (size_t)snprintf(o, cap, "%04d%02d%02dT%02d%02d%02dZ", (int)c->y, c->mon, c->d, c->h, c->mi, c->s);
        default: return (size_t)snprintf(o, cap, "%04d%02d%02d", (int)c->y, c->mon, c->d);
    }
}

/* ------------------------------------------------------------------------------------------------------------
 * oracle pieces
 * ---------------------------------------------------------------------------------------------------------- */
/* the three epoch views and the two public fields describe one instant */
static void check_views(const struct aws_date_time *dt) {
    uint64_t ms = aws_date_time_as_millis(dt);
    uint64_t ns = aws_date_time_as_nanos(dt);
    double es = aws_date_time_as_epoch_secs(dt);
    CHECK((int64_t)dt->timestamp >= 0 && (uint64_t)dt->timestamp == ms / 1000 && dt->milliseconds == ms % 1000,
          "epoch-views:millis-vs-fields", "%s: as_millis=%" PRIu64 " but timestamp=%" PRId64 " milliseconds=%u", W(), ms,
          (int64_t)dt->timestamp, (unsigned)dt->milliseconds);
    if (ms <= UINT64_MAX / 1000000u) {
        V_COUNT("nanos_view_checked", 1);
        CHECK(ns == ms * 1000000u, "epoch-views:nanos-vs-millis", "%s: as_nanos=%" PRIu64 " as_millis=%" PRIu64, W(), ns, ms);
    } else {
        V_COUNT("nanos_view_unrepresentable", 1); /* after 2554-07-21T23:34:33Z a uint64_t cannot hold the value */
    }
    CHECK(es >= 0 && es < 3e11 && (uint64_t)llround(es * 1000.0) == ms, "epoch-views:secs-vs-millis",
          "%s: as_epoch_secs=%.6f as_millis=%" PRIu64, W(), es, ms);
}
/* the UTC field accessors show calendar date/time of instant `secs` */
static void check_calendar(const struct aws_date_time *dt, int64_t secs) {
    civil_t c = civil_from_secs(secs);
    unsigned y = aws_date_time_year(dt, false);
    int mo = (int)aws_date_time_month(dt, false);
    unsigned d = aws_date_time_month_day(dt, false);
    int wd = (int)aws_date_time_day_of_week(dt, false);
    unsigned h = aws_date_time_hour(dt, false), mi = aws_date_time_minute(dt, false), s = aws_date_time_second(dt, false);
#define CAL(cond, name, got, want)                                                                               \
    CHECK(cond, "calendar:" name, "%s: instant %" PRId64 " is %04d-%02d-%02d %s %02d:%02d:%02d UTC, accessor " name " gave %d, expected %d", \
          W(), secs, (int)c.y, c.mon, c.d, WD[c.wd], c.h, c.mi, c.s, (int)(got), (int)(want))
    CAL(y == (unsigned)c.y, "year", y, c.y);
    CAL(mo == c.mon - 1, "month", mo, c.mon - 1);
    CAL(d == (unsigned)c.d, "month_day", d, c.d);
    CAL(wd == c.wd, "day_of_week", wd, c.wd);
    CAL(h == (unsigned)c.h, "hour", h, c.h);
    CAL(mi == (unsigned)c.mi, "minute", mi, c.mi);
    CAL(s == (unsigned)c.s, "second", s, c.s);
#undef CAL
}

/* parse `text` through the buf or the cursor entry point from an exact-size heap block */
static int parse_text(struct aws_date_time *dt, const uint8_t *block, size_t n, enum aws_date_format f, int use_cursor, int *err) {
    memset(dt, 0xA5, sizeof(*dt));
    aws_reset_error();
    int rc;
    if (use_cursor) {
        struct aws_byte_cursor c = aws_byte_cursor_from_array(block, n);
        rc = aws_date_time_init_from_str_cursor(dt, &c, f);
    } else {
        struct aws_byte_buf b = aws_byte_buf_from_array(block, n);
        rc = aws_date_time_init_from_str(dt, &b, f);
        int e1 = rc == AWS_OP_SUCCESS ? 0 : aws_last_error();
        /* the same text at the front of a buffer with spare capacity (the usual 100-byte output array): only [0,len) is the
         * text, whatever the bytes behind it look like (added after a seeded change that parsed up to capacity) */
        static const char tail[8] = {'9', ' ', 'G', 'M', 'T', '+', '0', '1'};
        uint8_t roomy[160];
        if (n + sizeof(tail) <= sizeof(roomy)) {
            memcpy(roomy, block, n);
            memcpy(roomy + n, tail, sizeof(tail));
            struct aws_byte_buf b2 = aws_byte_buf_from_array(roomy, n);
            b2.capacity = n + sizeof(tail);
            struct aws_date_time d2;
            memset(&d2, 0xA5, sizeof(d2));
            int rc2 = aws_date_time_init_from_str(&d2, &b2, f);
            if (rc2 != rc || (rc == AWS_OP_SUCCESS && (d2.timestamp != dt->timestamp || d2.milliseconds != dt->milliseconds)))
                c19_fail("buf-spare-capacity-changes-result", "init_from_str of \"%s\" (%s): rc=%d t=%" PRId64 " from an exact buffer, rc=%d t=%" PRId64 " when the buffer has %zu more bytes of capacity behind len",
                         v_show(block, n), fmt_name(f), rc, rc == AWS_OP_SUCCESS ? (int64_t)dt->timestamp : 0, rc2, rc2 == AWS_OP_SUCCESS ? (int64_t)d2.timestamp : 0, sizeof(tail));
        }
        *err = e1;
        return rc;
    }
    *err = rc == AWS_OP_SUCCESS ? 0 : aws_last_error();
    return rc;
}

/* ------------------------------------------------------------------------------------------------------------
 * section roundtrip
 * ---------------------------------------------------------------------------------------------------------- */
static const int64_t full_days[6] = {
    0,       /* 1970-01-01 */
    10956,   /* 1999-12-31 */
    11016,   /* 2000-02-29 */
    47540,   /* 2100-02-28 */
    47541,   /* 2100-03-01 */
    LAST_DAY /* 9999-12-31 */
};

static uint64_t rt_total(void) {
    if (v_thorough()) return 2ull * NDAYS + 6ull * 86400;
    return 2ull * NMONTHS + 6ull * 1440;
}
/* index -> instant (depends on the index and the tier only) */
static int64_t rt_instant(uint64_t idx) {
    if (v_thorough()) {
        if (idx < 2ull * NDAYS) return (int64_t)(idx / 2) * 86400 + ((idx & 1) ? 86399 : 0);
        idx -= 2ull * NDAYS;
        return full_days[idx / 86400] * 86400 + (int64_t)(idx % 86400);
    }
    if (idx < 2ull * NMONTHS) {
        uint64_t mi = idx / 2;
        int64_t y = 1970 + (int64_t)(mi / 12);
        int m = (int)(mi % 12) + 1;
        if (!(idx & 1)) return days_from_civil(y, m, 1) * 86400;
        return (m == 12 ? days_from_civil(y + 1, 1, 1) : days_from_civil(y, m + 1, 1)) * 86400 - 1;
    }
    idx -= 2ull * NMONTHS;
    uint64_t minute = idx % 1440;
    return full_days[idx / 1440] * 86400 + (int64_t)minute * 60 + (int64_t)(minute % 60);
}

static int boundary_instant(int64_t t) {
    civil_t c = civil_from_secs(t);
    civil_t n = civil_from_secs(t + 1);
    civil_t p = civil_from_secs(t - 1);
    if (n.mon != c.mon || p.mon != c.mon) return 1;                                         /* first / last second of a month */
    if (c.mon == 2 && c.d == 29) return 1;                                                  /* leap day */
    if (c.y % 100 == 0 && ((c.mon == 2 && c.d == 28) || (c.mon == 3 && c.d == 1))) return 1; /* century rule */
    return 0;
}

static void rt_eval(uint64_t idx, void *ctx) {
    (void)ctx;
    BEE_ITEM(idx);
    static const unsigned ms_tab[4] = {0, 1, 500, 999};
    int64_t t = rt_instant(idx);
    unsigned ms = ms_tab[(idx / 2) & 3];
    int nontrivial = boundary_instant(t);

    /* the three ways to construct the instant */
    struct aws_date_time d1, d2, d3;
    memset(&d1, 0, sizeof(d1));
    memset(&d2, 0, sizeof(d2));
    memset(&d3, 0, sizeof(d3));
    aws_date_time_init_epoch_secs(&d1, (double)t);
    aws_date_time_init_epoch_millis(&d2, (uint64_t)t * 1000u + ms);
    aws_date_time_init_epoch_secs(&d3, (double)t + (double)ms / 1000.0);
    struct {
        const struct aws_date_time *dt;
        const char *how;
        unsigned ms;
    } ctor[3] = {{&d1, "init_epoch_secs(whole)", 0}, {&d2, "init_epoch_millis", ms}, {&d3, "init_epoch_secs(fraction)", ms}};
    for (int k = 0; k < 3; ++k) {
        g_case.mode = 0;
        g_case.how = ctor[k].how;
        g_case.t = t;
        g_case.ms = ctor[k].ms;
        V_COUNT("evaluations", 1);
        if (nontrivial) V_COUNT("nontrivial", 1);
        CHECK(aws_date_time_as_millis(ctor[k].dt) == (uint64_t)t * 1000u + ctor[k].ms, "init-instant",
              "%s holds as_millis=%" PRIu64, W(), aws_date_time_as_millis(ctor[k].dt));
        check_views(ctor[k].dt);
        check_calendar(ctor[k].dt, t);
    }

    /* fractions that round to the next millisecond - up to a whole second: the instant is t*1000 + round(fraction*1000) in
     * every epoch view (how the object splits it into seconds and milliseconds is its own business, so only the public
     * views are compared; added after a seeded change that dropped the carry into the seconds) */
    {
        static const double fr_tab[6] = {0.9996, 0.9999, 0.99951, 0.4996, 0.0004, 0.99999999};
        static const unsigned fr_ms[6] = {1000, 1000, 1000, 500, 0, 1000};
        for (int k = 0; k < 6; ++k) {
            struct aws_date_time d4;
            memset(&d4, 0, sizeof(d4));
            aws_date_time_init_epoch_secs(&d4, (double)t + fr_tab[k]);
            uint64_t want = (uint64_t)t * 1000u + fr_ms[k];
            g_case.mode = 0;
            g_case.how = "init_epoch_secs(fraction that rounds)";
            g_case.t = t;
            g_case.ms = fr_ms[k];
            V_COUNT("evaluations", 1);
            V_COUNT("nontrivial", 1);
            uint64_t ms4 = aws_date_time_as_millis(&d4);
            double es4 = aws_date_time_as_epoch_secs(&d4);
            CHECK(ms4 == want, "init-instant:rounded-fraction", "init_epoch_secs(%" PRId64 " + %.8f): as_millis=%" PRIu64 ", the instant to the millisecond is %" PRIu64, t, fr_tab[k], ms4, want);
            CHECK((uint64_t)llround(es4 * 1000.0) == ms4, "epoch-views:secs-vs-millis", "init_epoch_secs(%" PRId64 " + %.8f): as_epoch_secs=%.6f as_millis=%" PRIu64, t, fr_tab[k], es4, ms4);
            if (ms4 <= UINT64_MAX / 1000000u)
                CHECK(aws_date_time_as_nanos(&d4) == ms4 * 1000000u, "epoch-views:nanos-vs-millis", "init_epoch_secs(%" PRId64 " + %.8f): as_nanos=%" PRIu64 " as_millis=%" PRIu64, t, fr_tab[k],
                      aws_date_time_as_nanos(&d4), ms4);
        }
    }

    civil_t c = civil_from_secs(t);
    for (int kind = 0; kind < NKINDS; ++kind) {
        enum aws_date_format f = kind_fmt[kind];
        /* ---- format into a canary-filled buffer of the suggested size, at two starting lengths ---- */
        uint8_t out[AWS_DATE_TIME_STR_MAX_LEN + 16];
        memset(out, 0xC7, sizeof(out));
        size_t start = (idx & 1) ? 5 : 0;
        struct aws_byte_buf ob = aws_byte_buf_from_empty_array(out, AWS_DATE_TIME_STR_MAX_LEN);
        ob.len = start;
        aws_reset_error();
        int rc = kind_short[kind] ? aws_date_time_to_utc_time_short_str(&d2, f, &ob) : aws_date_time_to_utc_time_str(&d2, f, &ob);
        char want[64];
        size_t wn = canonical_text(kind, &c, want, sizeof(want));
        V_COUNT("formatted", 1);
        if (rc != AWS_OP_SUCCESS) {
            c19_fail("format-failed", "%s of instant %" PRId64 " in %s%s into a %d-byte buffer failed: error %d", kind_name[kind], t,
                     fmt_name(f), kind_short[kind] ? " (short)" : "", (int)AWS_DATE_TIME_STR_MAX_LEN, aws_last_error());
            continue;
        }
        int dirty = 0;
        for (size_t i = 0; i < start; ++i) dirty |= out[i] != 0xC7;
        for (size_t i = AWS_DATE_TIME_STR_MAX_LEN; i < sizeof(out); ++i) dirty |= out[i] != 0xC7;
        CHECK(!dirty && ob.len >= start && ob.len <= ob.capacity && ob.buffer == out, "format-buffer",
              "%s of %" PRId64 ": bytes outside [len,capacity) changed or len=%zu out of range", kind_name[kind], t, ob.len);
        if (ob.len < start || ob.len > AWS_DATE_TIME_STR_MAX_LEN) continue;
        const uint8_t *txt = out + start;
        size_t tn = ob.len - start;
        {
            CHECK(tn == wn && memcmp(txt, want, wn) == 0, CL("format-text:%s", kind_name[kind]), "instant %" PRId64 " formatted as \"%s\", calendar says \"%s\"", t,
                  v_show(txt, tn), want);
        }
        if (kind == 0 && (idx % 40000) == 0) v_sample("instant %" PRId64 " -> \"%.*s\"", t, (int)tn, (const char *)txt);
        if (kind == 1 && (idx % 40000) == 1) v_sample("instant %" PRId64 " -> \"%.*s\" (short)", t, (int)tn, (const char *)txt);

        /* ---- parse the library's own text back ---- */
        int64_t expect = kind_short[kind] ? t - t % 86400 : t;
        uint8_t *block = bee_block(txt, tn);
        enum aws_date_format modes[3];
        int nmodes = 0;
        modes[nmodes++] = f;
        modes[nmodes++] = AWS_DATE_FORMAT_AUTO_DETECT;
        if (f == AWS_DATE_FORMAT_ISO_8601) modes[nmodes++] = AWS_DATE_FORMAT_ISO_8601_BASIC; /* header: parser is lenient */
        if (f == AWS_DATE_FORMAT_ISO_8601_BASIC) modes[nmodes++] = AWS_DATE_FORMAT_ISO_8601; /* about which one is passed */
        for (int m = 0; m < nmodes; ++m) {
            int rcs[2];
            int64_t got[2] = {0, 0};
            for (int api = 0; api < 2; ++api) {
                struct aws_date_time p;
                int err = 0;
                V_COUNT("evaluations", 1);
                if (nontrivial) V_COUNT("nontrivial", 1);
                rcs[api] = parse_text(&p, block, tn, modes[m], api, &err);
                g_case.mode = 1;
                g_case.text = (const char *)txt;
                g_case.tn = (int)tn;
                g_case.kind = kind_name[kind];
                g_case.t = t;
                g_case.fmt = fmt_name(modes[m]);
                g_case.api = api;
                if (rcs[api] != AWS_OP_SUCCESS) {
                    if (kind == K_RFC_DATE) {
                        V_COUNT("rfc822_date_only_rejected", 1);
                        c19_fail("rfc822-date-only-not-parseable",
                                 "aws_date_time_to_utc_time_short_str(RFC822) output %s is rejected: rc=%d error=%d", W(), rcs[api], err);
                    } else {
                        c19_fail(CL("own-output-rejected:%s", kind_name[kind]), "%s is rejected: rc=%d error=%d", W(), rcs[api], err);
                    }
                    continue;
                }
                got[api] = (int64_t)p.timestamp;
                CHECK((int64_t)p.timestamp == expect && p.milliseconds == 0, CL("roundtrip-instant:%s", kind_name[kind]), "%s gives %" PRId64 ".%03u, expected %" PRId64 " (delta %+" PRId64 " s)",
                      W(), (int64_t)p.timestamp, (unsigned)p.milliseconds, expect, (int64_t)p.timestamp - expect);
                if ((int64_t)p.timestamp >= 0 && (int64_t)p.timestamp < (int64_t)NDAYS * 86400) {
                    check_views(&p);
                    check_calendar(&p, (int64_t)p.timestamp);
                }
            }
            CHECK(rcs[0] == rcs[1] && got[0] == got[1], "buf-vs-cursor", "\"%.*s\" with %s: init_from_str rc=%d t=%" PRId64 ", _cursor rc=%d t=%" PRId64,
                  (int)tn, (const char *)txt, fmt_name(modes[m]), rcs[0], got[0], rcs[1], got[1]);
        }
        free(block);
    }
}

/* ------------------------------------------------------------------------------------------------------------
 * section variants
 * ---------------------------------------------------------------------------------------------------------- */
/* base instants (UTC): every offset in (-24h,+24h) keeps them inside 1970..9999 */
static const int64_t var_instants[4] = {
    86400,                                 /* 1970-01-02T00:00:00Z : west offsets reach back into 1970-01-01 */
    11016ll * 86400 + 12 * 3600 + 34 * 60 + 56, /* 2000-02-29T12:34:56Z : leap day, offsets reach Feb 28 and Mar 1 */
    47541ll * 86400,                       /* 2100-03-01T00:00:00Z : local dates fall on 2100-02-28 (no Feb 29) */
    (LAST_DAY - 1ll) * 86400 + 86399,      /* 9999-12-30T23:59:59Z : east offsets reach 9999-12-31 */
};
enum { B_RFC, B_ISO, B_BASIC };
static const char *base_name[3] = {"rfc822", "iso8601", "iso8601-basic"};
static const enum aws_date_format base_fmt[3] = {AWS_DATE_FORMAT_RFC822, AWS_DATE_FORMAT_ISO_8601, AWS_DATE_FORMAT_ISO_8601_BASIC};

static const char *desig_tab[] = {"Z", "z", "UT", "ut", "UTC", "utc", "GMT", "gmt", /* named by header and property */
                                  "Ut", "uT", "Utc", "uTC", "Gmt", "gMT",           /* mixed case: either verdict */
                                  "",                                                 /* nothing at all */
                                  " "};                                               /* RFC 822: separator but no zone */
#define NDESIG 16
#define NDESIG_NAMED 8
static const char *frac_tab[] = {".1", ".12", ".123", ".1234", ".12345", ".123456", ".1234567", ".12345678", ".123456789", ",5", ",123", "."};
#define NFRAC 12
#define NFRAC_VALID 11
static const char sep_tab[3] = {'T', 't', ' '};

#define N_OFF (3 * 2 * 2 * 24 * 60)
#define N_DESIG (3 * NDESIG)
#define N_FRAC (3 * 3 * NFRAC)
#define N_SEP (2 * 2 * 3)
#define N_YY 2
#define N_NOWD 2
#define NVARIANTS (N_OFF + N_DESIG + N_FRAC + N_SEP + N_YY + N_NOWD)

static uint64_t var_total(void) { return 4ull * NVARIANTS; }

struct variant {
    int base;            /* B_* */
    char text[120];
    size_t len;
    int must_accept;     /* 1: header/property name this form; 0: either verdict */
    int64_t expect;      /* instant the text denotes */
    int64_t expect_alt;  /* second admissible reading (2-digit year), else == expect */
    const char *family;  /* clause stem */
    int nontrivial;
    int offset_secs;
    int zoneless;        /* RFC 822 text without any zone: documented to be read in the process's LOCAL zone */
};

static size_t rfc_text(char *o, size_t cap, const civil_t *c, int weekday, int two_digit_year, const char *tail) {
    size_t n = 0;
    if (weekday) n += (size_t)snprintf(o + n, cap - n, "%s, ", WD[c->wd]);
    n += (size_t)snprintf(o + n, cap - n, "%02d %s ", c->d, MON[c->mon - 1]);
    if (two_digit_year)
        n += (size_t)snprintf(o + n, cap - n, "%02d", (int)(c->y % 100));
    else
        n += (size_t)snprintf(o + n, cap - n, "%04d", (int)c->y);
    n += (size_t)snprintf(o + n, cap - n, " %02d:%02d:%02d%s", c->h, c->mi, c->s, tail);
    return n;
}
static size_t iso_text(char *o, size_t cap, const civil_t *c, int basic, char sep, const char *frac, const char *tail) {
    if (basic) return (size_t)snprintf(o, cap, "%04d%02d%02d%c%02d%02d%02d%s%s", (int)c->y, c->mon, c->d, sep, c->h, c->mi, c->s, frac, tail);
    return (size_t)snprintf(o, cap, "%04d-%02d-%02d%c%02d:%02d:%02d%s%s", (int)c->y, c->mon, c->d, sep, c->h, c->mi, c->s, frac, tail);
}
/* offset text; colon=1 gives +hh:mm */
static void off_text(char *o, size_t cap, int negative, int hh, int mm, int colon) {
    snprintf(o, cap, "%c%02d%s%02d", negative ? '-' : '+', hh, colon ? ":" : "", mm);
}

static void var_build(uint64_t v, int64_t T, struct variant *out) {
    memset(out, 0, sizeof(*out));
    char tail[24], tmp[24];
    civil_t c;
    out->expect = out->expect_alt = T;
    if (v < N_OFF) {
        int mm = (int)bee_digit(&v, 60), hh = (int)bee_digit(&v, 24), neg = (int)bee_digit(&v, 2), colon = (int)bee_digit(&v, 2);
        int base = (int)bee_digit(&v, 3);
        int off = (hh * 3600 + mm * 60) * (neg ? -1 : 1);
        c = civil_from_secs(T + off); /* the wall clock that is `off` ahead of UTC shows this when UTC shows T */
        off_text(tmp, sizeof(tmp), neg, hh, mm, colon);
        out->base = base;
        out->family = "offset";
        out->offset_secs = off;
        out->nontrivial = off != 0;
        if (base == B_RFC) {
            snprintf(tail, sizeof(tail), " %s", tmp);
            out->len = rfc_text(out->text, sizeof(out->text), &c, 1, 0, tail);
            out->must_accept = !colon; /* header: "offsets from UTC (e.g. +0100, -0700)" */
        } else {
            out->len = iso_text(out->text, sizeof(out->text), &c, base == B_BASIC, 'T', "", tmp);
            /* the property quantifies over all formats x both offset spellings, and the ISO 8601 parser is documented lenient between
             * the extended and the basic form ("allow offset with separator or not"): both spellings must be accepted in both forms */
            out->must_accept = 1;
        }
        return;
    }
    v -= N_OFF;
    c = civil_from_secs(T);
    if (v < N_DESIG) {
        int d = (int)bee_digit(&v, NDESIG), base = (int)bee_digit(&v, 3);
        out->base = base;
        out->family = "designator";
        out->nontrivial = d != 0;
        if (base == B_RFC) {
            if (desig_tab[d][0] == 0 || desig_tab[d][0] == ' ')
                snprintf(tail, sizeof(tail), "%s", desig_tab[d]);
            else
                snprintf(tail, sizeof(tail), " %s", desig_tab[d]);
            out->len = rfc_text(out->text, sizeof(out->text), &c, 1, 0, tail);
            out->must_accept = d < NDESIG_NAMED;
            out->zoneless = desig_tab[d][0] == 0 || (desig_tab[d][0] == ' ' && desig_tab[d][1] == 0);
        } else {
            out->len = iso_text(out->text, sizeof(out->text), &c, base == B_BASIC, 'T', "", desig_tab[d]);
            out->must_accept = d < 2; /* Z and z; UT/UTC/GMT are not ISO 8601 notation: either verdict */
        }
        return;
    }
    v -= N_DESIG;
    if (v < N_FRAC) {
        int fr = (int)bee_digit(&v, NFRAC), tl = (int)bee_digit(&v, 3), base = (int)bee_digit(&v, 3);
        int off = tl == 0 ? 0 : tl == 1 ? 5400 : -2700;
        c = civil_from_secs(T + off);
        out->base = base;
        out->family = "fraction";
        out->nontrivial = 1;
        out->offset_secs = off;
        if (tl == 0)
            snprintf(tmp, sizeof(tmp), "%s", base == B_RFC ? "GMT" : "Z");
        else
            off_text(tmp, sizeof(tmp), off < 0, tl == 1 ? 1 : 0, tl == 1 ? 30 : 45, base == B_ISO);
        if (base == B_RFC) {
            snprintf(tail, sizeof(tail), "%s %s", frac_tab[fr], tmp);
            out->len = rfc_text(out->text, sizeof(out->text), &c, 1, 0, tail);
            out->must_accept = 0; /* RFC 822 has no fractional seconds */
        } else {
            out->len = iso_text(out->text, sizeof(out->text), &c, base == B_BASIC, 'T', frac_tab[fr], tmp);
            out->must_accept = fr < NFRAC_VALID;
        }
        return;
    }
    v -= N_FRAC;
    if (v < N_SEP) {
        int sp = (int)bee_digit(&v, 3), tl = (int)bee_digit(&v, 2), basic = (int)bee_digit(&v, 2);
        int off = tl ? 5400 : 0;
        c = civil_from_secs(T + off);
        out->base = basic ? B_BASIC : B_ISO;
        out->family = "separator";
        out->nontrivial = sp != 0;
        out->offset_secs = off;
        if (tl)
            off_text(tmp, sizeof(tmp), 0, 1, 30, !basic);
        else
            snprintf(tmp, sizeof(tmp), "Z");
        out->len = iso_text(out->text, sizeof(out->text), &c, basic, sep_tab[sp], "", tmp);
        out->must_accept = sp == 0; /* 't' and ' ' (RFC 3339) are not named by header or property */
        return;
    }
    v -= N_SEP;
    if (v < N_YY) {
        int off = v ? 5400 : 0;
        c = civil_from_secs(T + off);
        out->base = B_RFC;
        out->family = "two-digit-year";
        out->nontrivial = 1;
        out->offset_secs = off;
        out->len = rfc_text(out->text, sizeof(out->text), &c, 1, 1, v ? " +0130" : " GMT");
        out->must_accept = 0;
        /* "yy" reads as 19yy (RFC 822) or 20yy (what the library documents in a comment): both admissible */
        int64_t sod = c.h * 3600 + c.mi * 60 + c.s;
        out->expect = days_from_civil(1900 + c.y % 100, c.mon, c.d) * 86400 + sod - off;
        out->expect_alt = days_from_civil(2000 + c.y % 100, c.mon, c.d) * 86400 + sod - off;
        return;
    }
    v -= N_YY;
    {
        int off = v ? 5400 : 0;
        c = civil_from_secs(T + off);
        out->base = B_RFC;
        out->family = "no-weekday";
        out->nontrivial = 1;
        out->offset_secs = off;
        out->len = rfc_text(out->text, sizeof(out->text), &c, 0, 0, v ? " +0130" : " GMT");
        out->must_accept = 0; /* RFC 822 makes the weekday optional; neither header nor property name the form */
    }
}

static void var_eval(uint64_t idx, void *ctx) {
    (void)ctx;
    BEE_ITEM(idx);
    uint64_t x = idx;
    uint64_t v = x % NVARIANTS;
    int64_t T = var_instants[x / NVARIANTS];
    struct variant va;
    var_build(v, T, &va);
    uint8_t *block = bee_block(va.text, va.len);
    if ((idx % 9973) == 0) v_sample("variant %s/%s \"%s\" denotes %" PRId64 " (%s)", base_name[va.base], va.family, va.text, va.expect, va.must_accept ? "must be accepted" : "either verdict");

    enum aws_date_format modes[3];
    int nmodes = 0;
    modes[nmodes++] = base_fmt[va.base];
    modes[nmodes++] = AWS_DATE_FORMAT_AUTO_DETECT;
    if (va.base == B_ISO) modes[nmodes++] = AWS_DATE_FORMAT_ISO_8601_BASIC;
    if (va.base == B_BASIC) modes[nmodes++] = AWS_DATE_FORMAT_ISO_8601;
    const char *cl;
    for (int m = 0; m < nmodes; ++m) {
        int rcs[2];
        int64_t got[2] = {0, 0};
        for (int api = 0; api < 2; ++api) {
            struct aws_date_time p;
            int err = 0;
            V_COUNT("evaluations", 1);
            if (va.nontrivial) V_COUNT("nontrivial", 1);
            rcs[api] = parse_text(&p, block, va.len, modes[m], api, &err);
            g_case.mode = 2;
            g_case.text = va.text;
            g_case.tn = (int)va.len;
            g_case.how = va.family;
            g_case.t = va.expect;
            g_case.offset_secs = va.offset_secs;
            g_case.fmt = fmt_name(modes[m]);
            g_case.api = api;
            if (rcs[api] != AWS_OP_SUCCESS) {
                if (va.must_accept) {
                    c19_fail(CL("%s-rejected:%s", va.family, base_name[va.base]), "%s is rejected: rc=%d error=%d", W(), rcs[api], err);
                } else {
                    V_COUNT("unnamed_form_rejected", 1);
                }
                continue;
            }
            if (!va.must_accept) V_COUNT("unnamed_form_accepted", 1);
            got[api] = (int64_t)p.timestamp;
            /* header: "Initializes dt to be the time represented by date_str" — also for forms it need not accept */
            int64_t g = (int64_t)p.timestamp;
            const char *hint = "";
            if (va.offset_secs && g == va.expect + 2 * (int64_t)va.offset_secs) hint = " [offset applied with the wrong sign]";
            else if (va.offset_secs && g == va.expect + (int64_t)va.offset_secs) hint = " [offset ignored]";
            if (va.zoneless && getenv("V_TZ") && strcmp(getenv("V_TZ"), "UTC") != 0) {
                /* zone-less RFC 822 input is local time by design (mktime): with the process outside UTC the instant
                 * depends on the zone and is not judged here */
                V_COUNT("zoneless_local_time_not_judged", 1);
            } else if (g != va.expect && g != va.expect_alt) {
                cl = va.must_accept ? CL("%s-wrong-instant:%s", va.family, base_name[va.base])
                                    : CL("accepted-unnamed-form-wrong-instant:%s:%s", va.family, base_name[va.base]);
                c19_fail(cl, "%s gives %" PRId64 " (delta %+" PRId64 " s)%s", W(), g, g - va.expect, hint);
            }
            if (g >= 0 && g < (int64_t)NDAYS * 86400) {
                check_views(&p);
                check_calendar(&p, g);
            }
        }
        CHECK(rcs[0] == rcs[1] && got[0] == got[1], "buf-vs-cursor", "\"%s\" with %s: init_from_str rc=%d t=%" PRId64 ", _cursor rc=%d t=%" PRId64, va.text,
              fmt_name(modes[m]), rcs[0], got[0], rcs[1], got[1]);
    }
    free(block);
}

/* ------------------------------------------------------------------------------------------------------------
 * section shortbuf: formatting into every amount of free space 0..40 behind 0 or 3 bytes already in the buffer.
 * A call either succeeds (exactly the calendar's text appended) or is refused with the buffer as it was: same
 * len, same bytes before len - so that growing the buffer and calling again yields the text once (added after a
 * seeded change whose refused RFC 822 call left len advanced past a half-written date)
 * ---------------------------------------------------------------------------------------------------------- */
#define SB_FREE 41
static const int64_t sb_instants[6] = {0, 951782400 + 86399 /* 2000-02-29 23:59:59 */, 1700000000, 4107542400 /* 2100-03-01 */, 253402300799 /* 9999-12-31 23:59:59 */, 86400 * 365 + 3600 * 7 + 60 * 8 + 9};
static uint64_t sb_total(void) { return 6ull * NKINDS * SB_FREE * 2; }
static void sb_eval(uint64_t idx, void *ctx) {
    (void)ctx;
    BEE_ITEM(idx);
    uint64_t x = idx;
    size_t start = (x % 2) ? 3 : 0;
    x /= 2;
    size_t freeb = (size_t)(x % SB_FREE);
    x /= SB_FREE;
    int kind = (int)(x % NKINDS);
    x /= NKINDS;
    int64_t t = sb_instants[x];
    struct aws_date_time d;
    memset(&d, 0, sizeof(d));
    aws_date_time_init_epoch_secs(&d, (double)t);
    civil_t c = civil_from_secs(t);
    char want[64];
    size_t wn = canonical_text(kind, &c, want, sizeof(want));
    size_t cap = start + freeb;
    /* run A: a block of exactly the capacity - the sanitizer sees any byte the LIBRARY writes past it; run B (below): 16
     * canary bytes behind the capacity - the sanitizer does not intercept strftime(), so what libc writes on the
     * library's behalf is only visible as a changed canary (added after a seeded change that passed capacity+1 to it) */
    {
        uint8_t *wide = malloc(cap + 16);
        memset(wide, 0xC7, cap + 16);
        struct aws_byte_buf wb = aws_byte_buf_from_empty_array(wide, cap);
        if (cap == 0) wb.buffer = wide, wb.capacity = 0;
        wb.len = start;
        int rcw = kind_short[kind] ? aws_date_time_to_utc_time_short_str(&d, kind_fmt[kind], &wb) : aws_date_time_to_utc_time_str(&d, kind_fmt[kind], &wb);
        size_t first_bad = 0;
        int bad = 0;
        for (size_t i = 0; i < 16 && !bad; ++i)
            if (wide[cap + i] != 0xC7) bad = 1, first_bad = i;
        g_case.mode = 0;
        g_case.how = "format into a short buffer";
        g_case.t = t;
        g_case.ms = 0;
        CHECK(!bad, CL("shortbuf-writes-past-capacity:%s", kind_name[kind]), "%s of %" PRId64 " (%zu bytes) into %zu free bytes behind %zu (%s): byte %zu behind the capacity was overwritten with 0x%02x",
              kind_name[kind], t, wn, freeb, start, rcw ? "refused" : "success", first_bad, wide[cap + first_bad]);
        free(wide);
    }
    uint8_t *out = malloc(cap ? cap : 1);
    memset(out, 0xC7, cap ? cap : 1);
    struct aws_byte_buf ob = aws_byte_buf_from_empty_array(out, cap);
    ob.len = start;
    aws_reset_error();
    enum aws_date_format f = kind_fmt[kind];
    int rc = kind_short[kind] ? aws_date_time_to_utc_time_short_str(&d, f, &ob) : aws_date_time_to_utc_time_str(&d, f, &ob);
    int err = rc ? aws_last_error() : 0;
    g_case.mode = 0;
    g_case.how = "format into a short buffer";
    g_case.t = t;
    g_case.ms = 0;
    V_COUNT("evaluations", 1);
    V_COUNT("nontrivial", 1);
    V_COUNT(rc ? "shortbuf_refused" : "shortbuf_fitted", 1);
    int prefix_ok = 1;
    for (size_t i = 0; i < start; ++i) prefix_ok &= out[i] == 0xC7;
    CHECK(prefix_ok && (ob.buffer == out || cap == 0) && ob.capacity == cap, "shortbuf-prefix", "%s of %" PRId64 " with %zu free bytes behind %zu: bytes before len or the buffer descriptor changed",
          kind_name[kind], t, freeb, start);
    if (rc == AWS_OP_SUCCESS) {
        CHECK(ob.len == start + wn && wn <= freeb && memcmp(out + start, want, wn) == 0, CL("shortbuf-text:%s", kind_name[kind]),
              "%s of %" PRId64 " with %zu free bytes behind %zu: success with len=%zu and text \"%s\", calendar says \"%s\" (%zu bytes)", kind_name[kind], t, freeb, start,
              ob.len, v_show(out + start, ob.len >= start && ob.len <= cap ? ob.len - start : 0), want, wn);
    } else {
        CHECK(ob.len == start, CL("shortbuf-refused-call-moved-len:%s", kind_name[kind]),
              "%s of %" PRId64 " with %zu free bytes behind %zu is refused (error %d) but len is now %zu: a retry into a grown buffer starts after %zu stray bytes",
              kind_name[kind], t, freeb, start, err, ob.len, ob.len - start);
        CHECK(err == AWS_ERROR_SHORT_BUFFER, "shortbuf-error-code", "%s of %" PRId64 " with %zu free bytes: refused with error %d, not SHORT_BUFFER", kind_name[kind], t, freeb, err);
        CHECK(freeb <= wn, CL("shortbuf-refused-although-it-fits:%s", kind_name[kind]), "%s of %" PRId64 " (%zu bytes + terminator) is refused with %zu free bytes", kind_name[kind], t, wn, freeb);
    }
    free(out);
}

/* ------------------------------------------------------------------------------------------------------------
 * section otherthread: the text is produced on one thread and parsed on another.  A date string means the same instant
 * whichever thread reads it - also a thread that was created after some other thread has already parsed dates (added after
 * a seeded change that made the parser's lazily built month / zone keys thread-local but initialised them under a
 * process-wide once-flag: only the first parsing thread could read RFC 822 any more)
 * ---------------------------------------------------------------------------------------------------------- */
struct ot_job {
    char text[NKINDS][AWS_DATE_TIME_STR_MAX_LEN + 1];
    size_t len[NKINDS];
    int rc[NKINDS][2]; /* explicit format, auto-detect */
    int64_t got[NKINDS][2];
};
static void *ot_thread(void *p) {
    struct ot_job *j = (struct ot_job *)p;
    for (int kind = 0; kind < NKINDS; ++kind)
        for (int mode = 0; mode < 2; ++mode) {
            struct aws_date_time d;
            memset(&d, 0, sizeof(d));
            struct aws_byte_cursor c = aws_byte_cursor_from_array(j->text[kind], j->len[kind]);
            j->rc[kind][mode] = aws_date_time_init_from_str_cursor(&d, &c, mode ? AWS_DATE_FORMAT_AUTO_DETECT : kind_fmt[kind]);
            j->got[kind][mode] = j->rc[kind][mode] == AWS_OP_SUCCESS ? (int64_t)aws_date_time_as_epoch_secs(&d) : -1;
        }
    return NULL;
}
static uint64_t ot_total(void) { return 400; }
static void ot_eval(uint64_t idx, void *ctx) {
    (void)ctx;
    BEE_ITEM(idx);
    int64_t t = rt_instant(idx * 37 + 5);
    struct ot_job j;
    memset(&j, 0, sizeof(j));
    struct aws_date_time d;
    memset(&d, 0, sizeof(d));
    aws_date_time_init_epoch_secs(&d, (double)t);
    for (int kind = 0; kind < NKINDS; ++kind) {
        struct aws_byte_buf ob = aws_byte_buf_from_empty_array(j.text[kind], AWS_DATE_TIME_STR_MAX_LEN);
        int rc = kind_short[kind] ? aws_date_time_to_utc_time_short_str(&d, kind_fmt[kind], &ob) : aws_date_time_to_utc_time_str(&d, kind_fmt[kind], &ob);
        j.len[kind] = rc == AWS_OP_SUCCESS ? ob.len : 0;
    }
    /* this thread parses first (whatever is initialised lazily is initialised here) ... */
    struct ot_job here = j;
    ot_thread(&here);
    /* ... then a thread created afterwards parses the same texts */
    pthread_t th;
    if (pthread_create(&th, NULL, ot_thread, &j) != 0) _exit(2);
    pthread_join(th, NULL);
    g_case.mode = 0;
    g_case.how = "parse on another thread";
    g_case.t = t;
    g_case.ms = 0;
    for (int kind = 0; kind < NKINDS; ++kind)
        for (int mode = 0; mode < 2; ++mode) {
            V_COUNT("evaluations", 1);
            V_COUNT("nontrivial", 1);
            CHECK(j.rc[kind][mode] == here.rc[kind][mode] && j.got[kind][mode] == here.got[kind][mode], CL("other-thread-reads-differently:%s", kind_name[kind]),
                  "\"%s\" (%s%s): the formatting thread reads it as rc=%d instant %" PRId64 ", a thread created afterwards as rc=%d instant %" PRId64, j.text[kind], kind_name[kind],
                  mode ? ", auto-detect" : "", here.rc[kind][mode], here.got[kind][mode], j.rc[kind][mode], j.got[kind][mode]);
        }
}

int main(int argc, char **argv) {
    v_init(argc, argv);
    if (!calendar_selfcheck()) {
        fprintf(stderr, "C19: the harness's two calendar computations disagree\n");
        return 2;
    }
    if (days_from_civil(9999, 12, 31) != LAST_DAY || days_from_civil(1999, 12, 31) != full_days[1] || days_from_civil(2000, 2, 29) != full_days[2] ||
        days_from_civil(2100, 2, 28) != full_days[3] || days_from_civil(2100, 3, 1) != full_days[4]) {
        fprintf(stderr, "C19: day-number table is wrong\n");
        return 2;
    }
    bee_register("roundtrip", rt_total, rt_eval, 20);
    bee_register("variants", var_total, var_eval, 20);
    bee_register("shortbuf", sb_total, sb_eval, 20);
    bee_register("otherthread", ot_total, ot_eval, 20);
    return bee_main(argc, argv);
}
