import os, subprocess

LEVEL = "exploration"
RULE = ("odometer enumeration (no randomness): base64 encode for every length 0..99 x every byte value at each of the last 3 "
        "positions x 3 capacities x 3 starting lengths; base64 decode of every string of length 4 (and 8, thorough) over "
        "{A B Q / + = NUL - 0xFF}, every byte value at each of the last 4 positions, every byte value at every position of a "
        "44-char text (vector body); hex: all 65536 two-character strings, all 1-/3-char strings over 18 symbols; UTF-8: all "
        "byte strings <=4 over 21 boundary bytes x all chunkings; each case runs on the shipped (AVX2) and on the portable "
        "path. non-trivial = case reaches the final-quantum / padding / vector-body / multi-byte-sequence code (counted).")


def prebuild(ctx):
    """second compilation of source/encoding.c WITHOUT USE_SIMD_ENCODING, all defined globals renamed p_*"""
    d = os.path.join(ctx["tmp"], "C05")
    os.makedirs(d, exist_ok=True)
    o = os.path.join(d, "encoding_portable.o")
    cmd = ["gcc", "-std=gnu99", "-c", os.path.join(ctx["repo"], "source", "encoding.c"), "-o", o] + ctx["cflags"]
    cmd = [c for c in cmd if c != "-DUSE_SIMD_ENCODING"]
    subprocess.run(cmd, check=True)
    syms = subprocess.run(["nm", "-g", "--defined-only", o], stdout=subprocess.PIPE, text=True, check=True).stdout
    m = os.path.join(d, "redefine.txt")
    with open(m, "w") as f:
        for ln in syms.splitlines():
            name = ln.split()[-1]
            f.write("%s p_%s\n" % (name, name))
    subprocess.run(["objcopy", "--redefine-syms=" + m, o], check=True)
    return [o]


HARNESSES = [
    dict(name="codec", src=["codec.c"], variant="asan", prebuild=prebuild, deadline={"quick": 120, "thorough": 1200}),
    # free-running ThreadSanitizer twin: two threads, each with objects of its own (harness/common/twin.c; samples, decides nothing)
    dict(name="own-objects-tsan", src=["../common/twin.c"], variant="tsan", cflags=["-DTWIN_C05", "-DVSX_FREE_RUNS=6"], deadline={"quick": 60, "thorough": 120}),
]
ASSUMPTIONS = [
    "the vectorised path is the one the library selects on this AVX2 host; the portable path is source/encoding.c compiled a second time from the working tree without USE_SIMD_ENCODING",
    "strict reference decoder: RFC 4648 alphabet only, padding only at the end, zero trailing bits",
    "strings longer than 99 bytes (encode) / 44 characters (decode) are not enumerated",
]
