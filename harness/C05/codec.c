/*
 * C05 — base64 / hex / UTF-8 codecs: exact, canonical, CPU-path independent (DESIGN §5 C05).
 * One binary holds the shipped functions (AVX2 path on this host) and a second compilation of
 * source/encoding.c without USE_SIMD_ENCODING under p_* names (see spec.py prebuild).
 */
#include "bee.h"
#include <aws/common/byte_buf.h>
#include <aws/common/encoding.h>
#include <aws/common/error.h>

int p_aws_base64_encode(const struct aws_byte_cursor *to_encode, struct aws_byte_buf *output);
int p_aws_base64_decode(const struct aws_byte_cursor *to_decode, struct aws_byte_buf *output);
int p_aws_base64_compute_decoded_len(const struct aws_byte_cursor *to_decode, size_t *decoded_len);
int p_aws_base64_compute_encoded_len(size_t to_encode_len, size_t *encoded_len);
int p_aws_hex_encode(const struct aws_byte_cursor *to_encode, struct aws_byte_buf *output);
int p_aws_hex_decode(const struct aws_byte_cursor *to_decode, struct aws_byte_buf *output);
bool aws_common_private_has_avx2(void);

typedef int (*enc_fn)(const struct aws_byte_cursor *, struct aws_byte_buf *);
static const char *path_name[2] = {"shipped", "portable"};
static int shipped_is_vector;

/* ---------- table-free RFC 4648 reference ---------- */
static char r_b64char(unsigned v) {
    if (v < 26) return (char)('A' + v);
    if (v < 52) return (char)('a' + (v - 26));
    if (v < 62) return (char)('0' + (v - 52));
    return v == 62 ? '+' : '/';
}
static int r_b64val(uint8_t c) {
    if (c >= 'A' && c <= 'Z') return c - 'A';
    if (c >= 'a' && c <= 'z') return c - 'a' + 26;
    if (c >= '0' && c <= '9') return c - '0' + 52;
    if (c == '+') return 62;
    if (c == '/') return 63;
    return -1;
}
static size_t r_b64enc(const uint8_t *in, size_t n, uint8_t *out) {
    size_t o = 0;
    for (size_t i = 0; i < n; i += 3) {
        unsigned rem = (unsigned)(n - i);
        uint32_t b = (uint32_t)in[i] << 16;
        if (rem > 1) b |= (uint32_t)in[i + 1] << 8;
        if (rem > 2) b |= in[i + 2];
        out[o++] = (uint8_t)r_b64char((b >> 18) & 63);
        out[o++] = (uint8_t)r_b64char((b >> 12) & 63);
        out[o++] = rem > 1 ? (uint8_t)r_b64char((b >> 6) & 63) : '=';
        out[o++] = rem > 2 ? (uint8_t)r_b64char(b & 63) : '=';
    }
    return o;
}
/* strict decoder. returns -1 if malformed, else length. *why: 1 bad length, 2 NUL byte, 3 other non-alphabet byte,
 * 4 padding not at the end / '=' followed by digit, 5 non-zero trailing bits */
static long r_b64dec(const uint8_t *in, size_t n, uint8_t *out, int *why) {
    *why = 0;
    if (n % 4) {
        *why = 1;
        return -1;
    }
    size_t o = 0;
    for (size_t i = 0; i < n; i += 4) {
        int last = (i + 4 == n);
        int v[4];
        int npad = 0;
        for (int k = 0; k < 4; ++k) {
            uint8_t c = in[i + k];
            if (c == '=') {
                if (!last || k < 2) {
                    *why = 4;
                    return -1;
                }
                npad++;
                v[k] = 0;
            } else {
                if (npad) { /* digit after '=' */
                    *why = 4;
                    return -1;
                }
                v[k] = r_b64val(c);
                if (v[k] < 0) {
                    *why = c == 0 ? 2 : 3;
                    return -1;
                }
            }
        }
        uint32_t b = ((uint32_t)v[0] << 18) | ((uint32_t)v[1] << 12) | ((uint32_t)v[2] << 6) | (uint32_t)v[3];
        if (npad == 2 && (v[1] & 15)) {
            *why = 5;
            return -1;
        }
        if (npad == 1 && (v[2] & 3)) {
            *why = 5;
            return -1;
        }
        out[o++] = (uint8_t)(b >> 16);
        if (npad < 2) out[o++] = (uint8_t)(b >> 8);
        if (npad < 1) out[o++] = (uint8_t)b;
    }
    return (long)o;
}
static const char *why_name[] = {"ok", "bad-length", "nul-byte-as-digit", "non-alphabet-byte", "padding-not-at-end", "nonzero-trailing-bits"};

/* ---------- section: base64 encode ---------- */
#define ENC_MAXLEN 100
static uint64_t enc_total(void) { return (uint64_t)ENC_MAXLEN * 3 * 256 * 3 * 3; }
static void enc_eval(uint64_t idx, void *ctx) {
    (void)ctx;
    BEE_ITEM(idx);
    uint64_t x = idx;
    unsigned startsel = bee_digit(&x, 3), capsel = bee_digit(&x, 3), val = bee_digit(&x, 256), pos = bee_digit(&x, 3);
    size_t len = (size_t)bee_digit(&x, ENC_MAXLEN);
    static const size_t starts[3] = {0, 1, 5};
    size_t start = starts[startsel];
    uint8_t in[ENC_MAXLEN + 4];
    for (size_t i = 0; i < len; ++i) in[i] = (uint8_t)(i * 37 + 11 + len);
    if (len > pos) in[len - 1 - pos] = (uint8_t)val;
    else if (val != 0) return; /* position does not exist for this length: evaluate once */
    V_COUNT("evaluations", 1);
    if (len % 3) V_COUNT("nontrivial", 1); /* padding code reached */
    if (len >= 24) V_COUNT("enc_vector_body", 1);
    uint8_t ref[4 * ENC_MAXLEN];
    size_t rlen = r_b64enc(in, len, ref);
    size_t pred = 12345;
    BEE_CHECK(aws_base64_compute_encoded_len(len, &pred) == AWS_OP_SUCCESS && pred == rlen, "predicted-length",
              "compute_encoded_len(%zu) gave %zu, canonical text has %zu", len, pred, rlen);
    size_t cap = start + rlen;
    if (capsel == 1) {
        if (cap == 0) return;
        cap -= 1;
    } else if (capsel == 2)
        cap += 7;
    for (int path = 0; path < 2; ++path) {
        enc_fn f = path ? p_aws_base64_encode : aws_base64_encode;
        uint8_t *src = bee_block(in, len);
        uint8_t *dst = (uint8_t *)malloc(cap ? cap : 1);
        memset(dst, 0xC7, cap ? cap : 1);
        struct aws_byte_cursor c = aws_byte_cursor_from_array(src, len);
        struct aws_byte_buf out = aws_byte_buf_from_empty_array(dst, cap);
        out.len = start <= cap ? start : cap;
        size_t len0 = out.len;
        aws_reset_error();
        int rc = f(&c, &out);
        if (cap < len0 + rlen) {
            BEE_CHECK(rc == AWS_OP_ERR && aws_last_error() == AWS_ERROR_SHORT_BUFFER, "short-buffer-refused",
                      "%s encode of %zu bytes into capacity %zu at len %zu: rc=%d err=%d", path_name[path], len, cap, len0, rc, aws_last_error());
            int dirty = 0;
            for (size_t i = 0; i < cap; ++i) dirty |= dst[i] != 0xC7;
            BEE_CHECK(out.len == len0 && !dirty, "failed-encode-unchanged", "%s failed encode changed the buffer", path_name[path]);
        } else {
            BEE_CHECK(rc == AWS_OP_SUCCESS, "encode-result", "%s encode failed rc=%d err=%d len=%zu cap=%zu", path_name[path], rc, aws_last_error(), len, cap);
            if (rc == AWS_OP_SUCCESS) {
                BEE_CHECK(out.len == len0 + rlen, "encode-length", "%s encode of %zu bytes: len advanced by %zu, canonical %zu", path_name[path], len, out.len - len0, rlen);
                BEE_CHECK(out.len - len0 == rlen && memcmp(dst + len0, ref, rlen) == 0, "encode-canonical",
                          "%s encode of %s gave %s, RFC 4648 says %s", path_name[path], v_show(in, len), v_show(dst + len0, out.len - len0), v_show(ref, rlen));
                int dirty = 0;
                for (size_t i = 0; i < len0; ++i) dirty |= dst[i] != 0xC7;
                for (size_t i = len0 + rlen; i < cap; ++i) dirty |= dst[i] != 0xC7;
                BEE_CHECK(!dirty, "encode-outside-range", "%s encode touched bytes outside [len, len+encoded)", path_name[path]);
                /* round trip through both decoders */
                for (int dp = 0; dp < 2; ++dp) {
                    enc_fn d = dp ? p_aws_base64_decode : aws_base64_decode;
                    uint8_t *txt = bee_block(ref, rlen);
                    struct aws_byte_cursor tc = aws_byte_cursor_from_array(txt, rlen);
                    size_t dl = 999;
                    int r0 = aws_base64_compute_decoded_len(&tc, &dl);
                    BEE_CHECK(r0 == AWS_OP_SUCCESS && dl == len, "decoded-length-prediction", "compute_decoded_len says %zu for text of %zu bytes", dl, len);
                    uint8_t *back = (uint8_t *)malloc(len ? len : 1);
                    memset(back, 0x5A, len ? len : 1);
                    struct aws_byte_buf bb = aws_byte_buf_from_empty_array(back, len);
                    int r1 = d(&tc, &bb);
                    BEE_CHECK(r1 == AWS_OP_SUCCESS && bb.len == len && memcmp(back, in, len) == 0, "round-trip",
                              "%s decode of canonical text %s: rc=%d len=%zu bytes=%s, original %s", path_name[dp], v_show(ref, rlen), r1, bb.len, v_show(back, bb.len < len ? bb.len : len), v_show(in, len));
                    free(back);
                    free(txt);
                }
            }
        }
        free(dst);
        free(src);
    }
}

/* ---------- decode oracle shared by the decode sections ---------- */
static size_t g_dec_prelen; /* pre-existing len of the output buffer handed to the decoders */
static void dec_check1(const uint8_t *text, size_t n);
static void dec_check(const uint8_t *text, size_t n) {
    g_dec_prelen = 0;
    dec_check1(text, n);
    g_dec_prelen = 2; /* second life of the output buffer (added after a seeded `len += result` on the vector path) */
    dec_check1(text, n);
    g_dec_prelen = 0;
}
static void dec_check1(const uint8_t *text, size_t n) {
    uint8_t ref[128];
    int why;
    long rlen = r_b64dec(text, n, ref, &why);
    V_COUNT("evaluations", 1);
    if (n && (text[n - 1] == '=' || rlen < 0)) V_COUNT("nontrivial", 1);
    int verdict[2];
    uint8_t got[2][128];
    size_t gotlen[2] = {0, 0};
    for (int path = 0; path < 2; ++path) {
        enc_fn d = path ? p_aws_base64_decode : aws_base64_decode;
        uint8_t *src = bee_block(text, n);
        struct aws_byte_cursor c = aws_byte_cursor_from_array(src, n);
        size_t dl = 0;
        aws_reset_error();
        int r0 = (path ? p_aws_base64_compute_decoded_len : aws_base64_compute_decoded_len)(&c, &dl);
        if (r0 != AWS_OP_SUCCESS) {
            verdict[path] = 0;
            BEE_CHECK(aws_last_error() == AWS_ERROR_INVALID_BASE64_STR, "decode-error-code", "compute_decoded_len error %d", aws_last_error());
            free(src);
            continue;
        }
        uint8_t *dst = (uint8_t *)malloc(dl ? dl : 1); /* exactly the predicted size */
        memset(dst, 0x5A, dl ? dl : 1);
        struct aws_byte_buf out = aws_byte_buf_from_empty_array(dst, dl);
        out.len = g_dec_prelen <= dl ? g_dec_prelen : dl; /* a re-used output buffer: decode stores from index 0 and SETS len */
        aws_reset_error();
        int rc = d(&c, &out);
        verdict[path] = rc == AWS_OP_SUCCESS;
        if (rc == AWS_OP_SUCCESS) {
            BEE_CHECK(out.len <= dl, "decode-len-exceeds-capacity", "%s decode reports %zu bytes in a %zu-byte buffer", path_name[path], out.len, dl);
            gotlen[path] = out.len <= dl ? out.len : dl;
            memcpy(got[path], dst, gotlen[path]);
        } else {
            BEE_CHECK(aws_last_error() == AWS_ERROR_INVALID_BASE64_STR, "decode-error-code", "%s decode failed with error %d", path_name[path], aws_last_error());
        }
        free(dst);
        free(src);
    }
    for (int path = 0; path < 2; ++path) {
        char clause[96];
        if (verdict[path] && rlen < 0) {
            snprintf(clause, sizeof(clause), "%s-accepts-malformed:%s", path_name[path], why_name[why]);
            bee_fail(clause, "%s decoder accepts %s (%s) and reports %zu bytes", path_name[path], v_show(text, n), why_name[why], gotlen[path]);
        } else if (!verdict[path] && rlen >= 0) {
            snprintf(clause, sizeof(clause), "%s-rejects-wellformed", path_name[path]);
            bee_fail(clause, "%s decoder rejects well-formed %s", path_name[path], v_show(text, n));
        } else if (verdict[path] && rlen >= 0) {
            snprintf(clause, sizeof(clause), "%s-wrong-bytes", path_name[path]);
            BEE_CHECK(gotlen[path] == (size_t)rlen && memcmp(got[path], ref, (size_t)rlen) == 0, clause,
                      "%s decode of %s gives %zu bytes %s, expected %ld bytes %s (0x5a = never written)", path_name[path], v_show(text, n), gotlen[path],
                      v_show(got[path], gotlen[path]), rlen, v_show(ref, (size_t)rlen));
        }
    }
    if (verdict[0] != verdict[1]) {
        /* only report path dependence separately when neither path was already blamed above */
        if (!((verdict[0] && rlen < 0) || (verdict[1] && rlen < 0) || (!verdict[0] && rlen >= 0) || (!verdict[1] && rlen >= 0)))
            bee_fail("path-dependent-verdict", "shipped=%d portable=%d on %s", verdict[0], verdict[1], v_show(text, n));
    }
}

static const uint8_t DEC_ALPHA[9] = {'A', 'B', 'Q', '/', '+', '=', 0x00, '-', 0xFF};
static uint64_t dec4_total(void) { return bee_pow(9, 4); }
static void dec4_eval(uint64_t idx, void *ctx) {
    (void)ctx;
    BEE_ITEM(idx);
    uint8_t t[4];
    uint64_t x = idx;
    for (int i = 0; i < 4; ++i) t[i] = DEC_ALPHA[bee_digit(&x, 9)];
    dec_check(t, 4);
}
/* length 8: quick = first quantum fixed to QUJD, thorough = all 9^8 */
static uint64_t dec8_total(void) { return v_thorough() ? bee_pow(9, 8) : bee_pow(9, 4); }
static void dec8_eval(uint64_t idx, void *ctx) {
    (void)ctx;
    BEE_ITEM(idx);
    uint8_t t[8];
    uint64_t x = idx;
    if (v_thorough()) {
        for (int i = 0; i < 8; ++i) t[7 - i] = DEC_ALPHA[bee_digit(&x, 9)];
    } else {
        memcpy(t, "QUJD", 4);
        for (int i = 0; i < 4; ++i) t[4 + i] = DEC_ALPHA[bee_digit(&x, 9)];
    }
    dec_check(t, 8);
}
/* every byte value at each of the last 4 positions, others from {A,/,=}; total lengths 4, 8, 36 */
static uint64_t declast_total(void) { return 3ull * 4 * 256 * 27; }
static void declast_eval(uint64_t idx, void *ctx) {
    (void)ctx;
    BEE_ITEM(idx);
    static const uint8_t oth[3] = {'A', '/', '='};
    static const size_t lens[3] = {4, 8, 36};
    uint64_t x = idx;
    unsigned o1 = bee_digit(&x, 3), o2 = bee_digit(&x, 3), o3 = bee_digit(&x, 3), val = bee_digit(&x, 256), pos = bee_digit(&x, 4);
    size_t n = lens[bee_digit(&x, 3)];
    uint8_t t[48];
    for (size_t i = 0; i < n; ++i) t[i] = (uint8_t)r_b64char((unsigned)(i * 5 + 3) & 63);
    unsigned os[3] = {o1, o2, o3};
    int k = 0;
    for (unsigned p = 0; p < 4; ++p) {
        if (p == pos) t[n - 4 + p] = (uint8_t)val;
        else t[n - 4 + p] = oth[os[k++]];
    }
    dec_check(t, n);
}
/* every byte value at every position of a 44-char well-formed text (vector body + tail) */
static uint64_t decbody_total(void) { return 44ull * 256 * 2; }
static void decbody_eval(uint64_t idx, void *ctx) {
    (void)ctx;
    BEE_ITEM(idx);
    uint64_t x = idx;
    unsigned val = bee_digit(&x, 256), pos = bee_digit(&x, 44), padded = bee_digit(&x, 2);
    uint8_t t[44];
    for (size_t i = 0; i < 44; ++i) t[i] = (uint8_t)r_b64char((unsigned)(i * 7 + 1) & 63);
    if (padded) {
        t[42] = 'A'; /* zero trailing bits for one pad */
        t[43] = '=';
        t[42] = (uint8_t)r_b64char(4 * 5);
    }
    t[pos] = (uint8_t)val;
    V_COUNT("dec_vector_body", 1);
    dec_check(t, 44);
}

/* the same for texts of 68, 100 and 132 characters: two to four full vector blocks and a tail - a malformed character in
 * ANY block has to be refused, not only in the last one (added after a seeded change whose vector loop kept only the verdict
 * of its last block) */
static const unsigned LB_LEN[3] = {68, 100, 132};
static uint64_t declong_total(void) { return (68ull + 100 + 132) * 256 * 2; }
static void declong_eval(uint64_t idx, void *ctx) {
    (void)ctx;
    BEE_ITEM(idx);
    uint64_t x = idx;
    unsigned padded = bee_digit(&x, 2), val = bee_digit(&x, 256);
    unsigned which = 0, pos = (unsigned)x;
    while (pos >= LB_LEN[which]) pos -= LB_LEN[which++];
    unsigned L = LB_LEN[which];
    uint8_t t[132];
    for (size_t i = 0; i < L; ++i) t[i] = (uint8_t)r_b64char((unsigned)(i * 7 + 1) & 63);
    if (padded) {
        t[L - 2] = (uint8_t)r_b64char(4 * 5); /* zero trailing bits for one pad */
        t[L - 1] = '=';
    }
    t[pos] = (uint8_t)val;
    V_COUNT("dec_vector_body_long", 1);
    if (pos + 36 <= L) V_COUNT("nontrivial", 1); /* the changed character sits in a vector block that is not the last one */
    dec_check(t, L);
}

/* ---------- hex ---------- */
static int r_hexval(uint8_t c) {
    if (c >= '0' && c <= '9') return c - '0';
    if (c >= 'a' && c <= 'f') return c - 'a' + 10;
    if (c >= 'A' && c <= 'F') return c - 'A' + 10;
    return -1;
}
static void hexdec_check(const uint8_t *text, size_t n) {
    V_COUNT("evaluations", 1);
    uint8_t ref[8];
    long rlen = 0;
    size_t i = 0;
    if (n & 1) {
        int v = r_hexval(text[0]);
        if (v < 0) rlen = -1;
        else ref[rlen++] = (uint8_t)v;
        i = 1;
    }
    for (; rlen >= 0 && i < n; i += 2) {
        int h = r_hexval(text[i]), l = r_hexval(text[i + 1]);
        if (h < 0 || l < 0) rlen = -1;
        else ref[rlen++] = (uint8_t)(h * 16 + l);
    }
    if (rlen > 0) V_COUNT("nontrivial", 1);
    uint8_t *src = bee_block(text, n);
    struct aws_byte_cursor c = aws_byte_cursor_from_array(src, n);
    size_t dl = 77;
    BEE_CHECK(aws_hex_compute_decoded_len(n, &dl) == AWS_OP_SUCCESS && dl == (n + 1) / 2, "hex-decoded-length", "compute_decoded_len(%zu)=%zu", n, dl);
    uint8_t *dst = (uint8_t *)malloc(dl ? dl : 1);
    memset(dst, 0x5A, dl ? dl : 1);
    struct aws_byte_buf out = aws_byte_buf_from_empty_array(dst, dl);
    aws_reset_error();
    int rc = aws_hex_decode(&c, &out);
    if (rlen < 0) {
        BEE_CHECK(rc == AWS_OP_ERR && aws_last_error() == AWS_ERROR_INVALID_HEX_STR, "hex-accepts-malformed", "hex decode of %s: rc=%d err=%d", v_show(text, n), rc, aws_last_error());
    } else {
        BEE_CHECK(rc == AWS_OP_SUCCESS && out.len == (size_t)rlen && memcmp(dst, ref, (size_t)rlen) == 0, "hex-decode-bytes",
                  "hex decode of %s: rc=%d len=%zu bytes=%s expected %s", v_show(text, n), rc, out.len, v_show(dst, out.len <= dl ? out.len : dl), v_show(ref, (size_t)rlen));
    }
    free(dst);
    free(src);
}
static uint64_t hex2_total(void) { return 65536; }
static void hex2_eval(uint64_t idx, void *ctx) {
    (void)ctx;
    BEE_ITEM(idx);
    uint8_t t[2] = {(uint8_t)(idx >> 8), (uint8_t)idx};
    hexdec_check(t, 2);
}
static const uint8_t HEX_ALPHA[18] = {'0', '9', 'a', 'f', 'A', 'F', 'g', 'G', '/', ':', '@', '`', 0x00, 0xFF, ' ', 'x', '5', 'c'};
static uint64_t hex13_total(void) { return 18 + 18 * 18 * 18 + bee_pow(18, 4); }
static void hex13_eval(uint64_t idx, void *ctx) {
    (void)ctx;
    BEE_ITEM(idx);
    uint8_t t[4];
    uint64_t x = idx;
    size_t n;
    if (x < 18) n = 1;
    else if ((x -= 18) < 18 * 18 * 18) n = 3;
    else {
        x -= 18 * 18 * 18;
        n = 4;
    }
    for (size_t i = 0; i < n; ++i) t[i] = HEX_ALPHA[bee_digit(&x, 18)];
    hexdec_check(t, n);
}
/* hex encode: every byte value alone and at the end of lengths 0..40; both entry points; starting len for the append form */
static uint64_t hexenc_total(void) { return 41ull * 256 * 3; }
static void hexenc_eval(uint64_t idx, void *ctx) {
    (void)ctx;
    BEE_ITEM(idx);
    uint64_t x = idx;
    unsigned mode = bee_digit(&x, 3), val = bee_digit(&x, 256);
    size_t len = bee_digit(&x, 41);
    if (len == 0 && val) return;
    V_COUNT("evaluations", 1);
    if (len) V_COUNT("nontrivial", 1);
    uint8_t in[48], ref[96];
    for (size_t i = 0; i < len; ++i) in[i] = (uint8_t)(i * 29 + 5);
    if (len) in[len - 1] = (uint8_t)val;
    for (size_t i = 0; i < len; ++i) {
        unsigned h = in[i] >> 4, l = in[i] & 15;
        ref[2 * i] = (uint8_t)(h < 10 ? '0' + h : 'a' + (h - 10));
        ref[2 * i + 1] = (uint8_t)(l < 10 ? '0' + l : 'a' + (l - 10));
    }
    size_t pl = 5;
    BEE_CHECK(aws_hex_compute_encoded_len(len, &pl) == AWS_OP_SUCCESS && pl == 2 * len, "hex-encoded-length", "compute_encoded_len(%zu)=%zu", len, pl);
    uint8_t *src = bee_block(in, len);
    struct aws_byte_cursor c = aws_byte_cursor_from_array(src, len);
    if (mode < 2) { /* aws_hex_encode into exact / one-short capacity (buffer empty, as the header assumes) */
        size_t cap = 2 * len - (mode == 1 && len ? 1 : 0);
        uint8_t *dst = (uint8_t *)malloc(cap ? cap : 1);
        memset(dst, 0xC7, cap ? cap : 1);
        struct aws_byte_buf out = aws_byte_buf_from_empty_array(dst, cap);
        aws_reset_error();
        int rc = aws_hex_encode(&c, &out);
        if (cap < 2 * len) {
            int dirty = 0;
            for (size_t i = 0; i < cap; ++i) dirty |= dst[i] != 0xC7;
            BEE_CHECK(rc == AWS_OP_ERR && aws_last_error() == AWS_ERROR_SHORT_BUFFER && out.len == 0 && !dirty, "hex-short-buffer", "hex encode into short buffer: rc=%d err=%d len=%zu dirty=%d", rc, aws_last_error(), out.len, dirty);
        } else {
            BEE_CHECK(rc == AWS_OP_SUCCESS && out.len == 2 * len && memcmp(dst, ref, 2 * len) == 0, "hex-encode-canonical", "hex encode of %s gave %s expected %s", v_show(in, len), v_show(dst, out.len <= cap ? out.len : cap), v_show(ref, 2 * len));
        }
        free(dst);
    } else { /* append_dynamic on a buffer that already holds 3 bytes */
        struct aws_byte_buf out;
        aws_byte_buf_init(&out, aws_default_allocator(), 3);
        aws_byte_buf_write(&out, (const uint8_t *)"xyz", 3);
        int rc = aws_hex_encode_append_dynamic(&c, &out);
        BEE_CHECK(rc == AWS_OP_SUCCESS && out.len == 3 + 2 * len && memcmp(out.buffer, "xyz", 3) == 0 && memcmp(out.buffer + 3, ref, 2 * len) == 0, "hex-append-dynamic",
                  "append_dynamic of %zu bytes: rc=%d len=%zu", len, rc, out.len);
        aws_byte_buf_clean_up(&out);
    }
    free(src);
}

/* ---------- length predictors on the boundary set ---------- */
static const size_t LEN_B[] = {0, 1, 2, 3, 4, 5, 6, 7, 8, 23, 24, 25, 31, 32, 33, SIZE_MAX / 4 - 1, SIZE_MAX / 4, SIZE_MAX / 4 + 1, SIZE_MAX / 4 * 3 - 1,
                               SIZE_MAX / 4 * 3, SIZE_MAX / 4 * 3 + 1, SIZE_MAX / 4 * 3 + 2, SIZE_MAX / 4 * 3 + 3, SIZE_MAX / 2 - 1, SIZE_MAX / 2, SIZE_MAX / 2 + 1, SIZE_MAX / 2 + 2, SIZE_MAX - 3, SIZE_MAX - 2, SIZE_MAX - 1, SIZE_MAX};
static uint64_t lens_total(void) { return sizeof(LEN_B) / sizeof(LEN_B[0]); }
static void lens_eval(uint64_t idx, void *ctx) {
    (void)ctx;
    BEE_ITEM(idx);
    size_t n = LEN_B[idx];
    V_COUNT("evaluations", 1);
    if (n > 100) V_COUNT("nontrivial", 1);
    unsigned __int128 e = ((unsigned __int128)n + 2) / 3 * 4;
    size_t got = 1;
    aws_reset_error();
    int rc = aws_base64_compute_encoded_len(n, &got);
    if (e > SIZE_MAX) BEE_CHECK(rc == AWS_OP_ERR && aws_last_error() == AWS_ERROR_OVERFLOW_DETECTED, "b64-len-overflow", "compute_encoded_len(%zu): rc=%d got=%zu, true length does not fit", n, rc, got);
    else BEE_CHECK(rc == AWS_OP_SUCCESS && got == (size_t)e, "b64-len", "compute_encoded_len(%zu)=%zu rc=%d expected %zu", n, got, rc, (size_t)e);
    e = (unsigned __int128)n * 2;
    aws_reset_error();
    rc = aws_hex_compute_encoded_len(n, &got);
    if (e > SIZE_MAX) BEE_CHECK(rc == AWS_OP_ERR && aws_last_error() == AWS_ERROR_OVERFLOW_DETECTED, "hex-len-overflow", "hex compute_encoded_len(%zu): rc=%d got=%zu", n, rc, got);
    else BEE_CHECK(rc == AWS_OP_SUCCESS && got == (size_t)e, "hex-len", "hex compute_encoded_len(%zu)=%zu", n, got);
    e = ((unsigned __int128)n + 1) / 2;
    aws_reset_error();
    rc = aws_hex_compute_decoded_len(n, &got);
    if (n == SIZE_MAX) BEE_CHECK((rc == AWS_OP_ERR && aws_last_error() == AWS_ERROR_OVERFLOW_DETECTED) || (rc == AWS_OP_SUCCESS && got == (size_t)e), "hex-declen", "hex compute_decoded_len(SIZE_MAX): rc=%d got=%zu", rc, got);
    else BEE_CHECK(rc == AWS_OP_SUCCESS && got == (size_t)e, "hex-declen", "hex compute_decoded_len(%zu)=%zu expected %zu", n, got, (size_t)e);
}

/* ---------- UTF-8 chunking independence ---------- */
static const uint8_t U8_ALPHA[21] = {0x00, 0x41, 0x7F, 0x80, 0x8F, 0x90, 0x9F, 0xA0, 0xBF, 0xC0, 0xC1, 0xC2, 0xDF, 0xE0, 0xED, 0xEF, 0xF0, 0xF4, 0xF5, 0xF8, 0xFF};
struct cplog {
    uint32_t cp[8];
    int n;
};
static int on_cp(uint32_t cp, void *ud) {
    struct cplog *l = (struct cplog *)ud;
    if (l->n < 8) l->cp[l->n] = cp;
    l->n++;
    return AWS_OP_SUCCESS;
}
static uint64_t utf8_total(void) { return bee_strings_upto(21, 4); }
static void utf8_eval(uint64_t idx, void *ctx) {
    (void)ctx;
    BEE_ITEM(idx);
    uint8_t t[4];
    size_t n = bee_string_at(idx, U8_ALPHA, 21, 4, t);
    uint8_t *src = bee_block(t, n);
    struct cplog whole = {{0}, 0};
    struct aws_utf8_decoder_options o = {.on_codepoint = on_cp, .user_data = &whole};
    int v_whole = aws_decode_utf8(aws_byte_cursor_from_array(src, n), &o) == AWS_OP_SUCCESS;
    int v_plain = aws_decode_utf8(aws_byte_cursor_from_array(src, n), NULL) == AWS_OP_SUCCESS;
    BEE_CHECK(v_whole == v_plain, "utf8-callback-changes-verdict", "verdict with callback %d, without %d on %s", v_whole, v_plain, v_show(t, n));
    unsigned nsplit = n ? 1u << (n - 1) : 1;
    for (unsigned mask = 0; mask < nsplit; ++mask) {
        V_COUNT("evaluations", 1);
        if (mask && n > 1 && t[0] >= 0xC2) V_COUNT("nontrivial", 1); /* a multi-byte lead is followed by a chunk boundary somewhere */
        struct cplog part = {{0}, 0};
        struct aws_utf8_decoder_options po = {.on_codepoint = on_cp, .user_data = &part};
        struct aws_utf8_decoder *d = aws_utf8_decoder_new(aws_default_allocator(), &po);
        int ok = 1;
        size_t s = 0;
        for (size_t i = 0; i < n && ok; ++i) {
            bool cut = (i + 1 == n) || (mask >> i & 1);
            if (cut) {
                uint8_t *chunk = bee_block(src + s, i + 1 - s); /* each chunk in its own exact-size block */
                if (aws_utf8_decoder_update(d, aws_byte_cursor_from_array(chunk, i + 1 - s))) ok = 0;
                free(chunk);
                s = i + 1;
            }
        }
        if (ok && aws_utf8_decoder_finalize(d)) ok = 0;
        aws_utf8_decoder_destroy(d);
        BEE_CHECK(ok == v_whole, "utf8-chunk-verdict", "text %s: one-shot verdict %d, chunking mask %#x verdict %d", v_show(t, n), v_whole, mask, ok);
        int same = part.n == whole.n;
        for (int k = 0; same && k < part.n && k < 8; ++k) same = part.cp[k] == whole.cp[k];
        BEE_CHECK(same, "utf8-chunk-codepoints", "text %s: chunking mask %#x reported %d code points (first U+%X), one-shot %d (first U+%X)", v_show(t, n), mask, part.n, part.cp[0], whole.n, whole.cp[0]);
    }
    free(src);
}


/* ---------- UTF-8: longer texts with ASCII runs ----------
 * texts = up to two lead symbols, an ASCII run of 0..20 bytes, one trailing symbol; symbols are 'a', U+00E9 (2 bytes),
 * U+20AC (3 bytes), U+1F600 (4 bytes).  The code points reported must be the same - and the ones the text was built from -
 * whether the text is fed whole, byte by byte, or cut once at any position (added after a seeded change whose fast path
 * stepped over words of ASCII without reporting them) */
static const uint8_t U8SYM[4][4] = {{'a'}, {0xC3, 0xA9}, {0xE2, 0x82, 0xAC}, {0xF0, 0x9F, 0x98, 0x80}};
static const unsigned U8SYM_LEN[4] = {1, 2, 3, 4};
static const uint32_t U8SYM_CP[4] = {'a', 0xE9, 0x20AC, 0x1F600};
struct cplog32 {
    uint32_t cp[40];
    int n;
};
static int on_cp32(uint32_t cp, void *ud) {
    struct cplog32 *l = (struct cplog32 *)ud;
    if (l->n < 40) l->cp[l->n] = cp;
    l->n++;
    return AWS_OP_SUCCESS;
}
/* a callback that closes a record at every code point by calling aws_utf8_decoder_finalize() on the decoder that is calling it:
 * the callback runs at a code point boundary, where "the text ends here" is always true, so each of these calls succeeds and
 * the verdict and the reported code points stay what they are without it - however the text is cut into updates (added after a
 * seeded change that kept the decoder's state in locals for the duration of an update) */
struct cplog32_re {
    struct cplog32 log;
    struct aws_utf8_decoder *dec;
    int nested_failures;
};
static int on_cp32_finalizing(uint32_t cp, void *ud) {
    struct cplog32_re *l = (struct cplog32_re *)ud;
    on_cp32(cp, &l->log);
    if (l->dec && aws_utf8_decoder_finalize(l->dec) != AWS_OP_SUCCESS) l->nested_failures++;
    return AWS_OP_SUCCESS;
}
static uint64_t utf8long_total(void) { return 5ull * 5 * 21 * 4; }
static void utf8long_eval(uint64_t idx, void *ctx) {
    (void)ctx;
    BEE_ITEM(idx);
    uint64_t x = idx;
    unsigned tail = bee_digit(&x, 4), run = bee_digit(&x, 21), s2 = bee_digit(&x, 5), s1 = bee_digit(&x, 5);
    uint8_t t[64];
    uint32_t want[40];
    size_t n = 0;
    int nw = 0;
    unsigned lead[2] = {s1, s2};
    for (int k = 0; k < 2; ++k)
        if (lead[k] < 4) {
            memcpy(t + n, U8SYM[lead[k]], U8SYM_LEN[lead[k]]);
            n += U8SYM_LEN[lead[k]];
            want[nw++] = U8SYM_CP[lead[k]];
        }
    for (unsigned i = 0; i < run; ++i) {
        t[n] = (uint8_t)('0' + (i % 10));
        want[nw++] = t[n];
        ++n;
    }
    memcpy(t + n, U8SYM[tail], U8SYM_LEN[tail]);
    n += U8SYM_LEN[tail];
    want[nw++] = U8SYM_CP[tail];
    uint8_t *src = bee_block(t, n);
    /* feeding plans: 0 = whole, 1 = byte by byte, 2.. = one cut after byte (plan-1) */
    for (size_t plan = 0; plan < n + 1; ++plan) {
        V_COUNT("evaluations", 1);
        if (run >= 8) V_COUNT("nontrivial", 1);
        struct cplog32 got = {{0}, 0};
        struct aws_utf8_decoder_options o = {.on_codepoint = on_cp32, .user_data = &got};
        struct aws_utf8_decoder *d = aws_utf8_decoder_new(aws_default_allocator(), &o);
        int ok = 1;
        if (plan == 0) {
            ok = aws_utf8_decoder_update(d, aws_byte_cursor_from_array(src, n)) == AWS_OP_SUCCESS;
        } else if (plan == 1) {
            for (size_t i = 0; i < n && ok; ++i) {
                uint8_t *c = bee_block(src + i, 1);
                ok = aws_utf8_decoder_update(d, aws_byte_cursor_from_array(c, 1)) == AWS_OP_SUCCESS;
                free(c);
            }
        } else {
            size_t cut = plan - 1;
            uint8_t *c1 = bee_block(src, cut), *c2 = bee_block(src + cut, n - cut);
            ok = aws_utf8_decoder_update(d, aws_byte_cursor_from_array(c1, cut)) == AWS_OP_SUCCESS && aws_utf8_decoder_update(d, aws_byte_cursor_from_array(c2, n - cut)) == AWS_OP_SUCCESS;
            free(c1);
            free(c2);
        }
        if (ok) ok = aws_utf8_decoder_finalize(d) == AWS_OP_SUCCESS;
        aws_utf8_decoder_destroy(d);
        if (plan != 1) { /* the same feeding plan with the record-closing callback */
            struct cplog32_re re;
            memset(&re, 0, sizeof(re));
            struct aws_utf8_decoder_options o2 = {.on_codepoint = on_cp32_finalizing, .user_data = &re};
            struct aws_utf8_decoder *d2 = aws_utf8_decoder_new(aws_default_allocator(), &o2);
            re.dec = d2;
            int ok2;
            if (plan == 0) {
                ok2 = aws_utf8_decoder_update(d2, aws_byte_cursor_from_array(src, n)) == AWS_OP_SUCCESS;
            } else {
                size_t cut = plan - 1;
                uint8_t *c1 = bee_block(src, cut), *c2 = bee_block(src + cut, n - cut);
                ok2 = aws_utf8_decoder_update(d2, aws_byte_cursor_from_array(c1, cut)) == AWS_OP_SUCCESS && aws_utf8_decoder_update(d2, aws_byte_cursor_from_array(c2, n - cut)) == AWS_OP_SUCCESS;
                free(c1);
                free(c2);
            }
            re.dec = NULL;
            if (ok2) ok2 = aws_utf8_decoder_finalize(d2) == AWS_OP_SUCCESS;
            aws_utf8_decoder_destroy(d2);
            V_COUNT("evaluations", 1);
            int same2 = re.log.n == nw;
            for (int k = 0; same2 && k < nw; ++k) same2 = re.log.cp[k] == want[k];
            BEE_CHECK(ok2 && re.nested_failures == 0 && same2, "utf8-chunk-verdict-with-finalizing-callback",
                      "well-formed text %s fed %s with a callback that finalizes the decoder at every code point: verdict %s, %d of the nested finalize calls failed, %d of %d code points reported", v_show(t, n),
                      plan == 0 ? "whole" : "in two pieces", ok2 ? "valid" : "INVALID", re.nested_failures, re.log.n, nw);
        }
        BEE_CHECK(ok, "utf8-valid-text-refused", "well-formed %zu-byte text %s refused (feeding plan %zu)", n, v_show(t, n), plan);
        int same = got.n == nw;
        for (int k = 0; same && k < nw; ++k) same = got.cp[k] == want[k];
        BEE_CHECK(same, "utf8-chunk-codepoints", "text %s (%d code points) fed %s: %d code points reported%s", v_show(t, n), nw, plan == 0 ? "whole" : plan == 1 ? "byte by byte" : "in two pieces", got.n,
                  got.n == nw ? ", with different values" : "");
    }
    free(src);
}

/* ---------- UTF-8: one decoder object used for two texts in a row ----------
 * aws_utf8_decoder_finalize "also resets the decoder" (encoding.h): whatever the first text was - valid, invalid, or cut in
 * the middle of a sequence - the verdict and code points of the second text must be those of a fresh decoder.
 * (added after a seeded change that skipped the reset on finalize's failure path) */
static uint64_t utf8reuse_total(void) {
    uint64_t k = bee_strings_upto(21, 2);
    return k * k;
}
static void utf8reuse_eval(uint64_t idx, void *ctx) {
    (void)ctx;
    BEE_ITEM(idx);
    uint64_t k = bee_strings_upto(21, 2);
    uint8_t t1[4], t2[4];
    size_t n1 = bee_string_at(idx / k, U8_ALPHA, 21, 2, t1), n2 = bee_string_at(idx % k, U8_ALPHA, 21, 2, t2);
    V_COUNT("evaluations", 1);
    struct cplog fresh = {{0}, 0}, reused = {{0}, 0}, first = {{0}, 0};
    struct aws_utf8_decoder_options fo = {.on_codepoint = on_cp, .user_data = &fresh};
    uint8_t *b2 = bee_block(t2, n2), *b1 = bee_block(t1, n1);
    int v_fresh = aws_decode_utf8(aws_byte_cursor_from_array(b2, n2), &fo) == AWS_OP_SUCCESS;
    struct cplog *sink = &first;
    struct cplog **sinkp = &sink;
    (void)sinkp;
    struct aws_utf8_decoder_options ro = {.on_codepoint = on_cp, .user_data = &first};
    struct aws_utf8_decoder *d = aws_utf8_decoder_new(aws_default_allocator(), &ro);
    int ok1 = aws_utf8_decoder_update(d, aws_byte_cursor_from_array(b1, n1)) == AWS_OP_SUCCESS;
    int fin1 = aws_utf8_decoder_finalize(d) == AWS_OP_SUCCESS; /* end of text 1, whatever it was */
    if (ok1 && !fin1) V_COUNT("nontrivial", 1);                   /* text 1 ended in the middle of a sequence */
    aws_utf8_decoder_destroy(d);
    /* the callback's user_data is fixed at creation: use a second decoder object for the log of text 2 only when needed;
     * here the same object must be re-used, so log both texts into `first` and compare its tail */
    struct cplog both = {{0}, 0};
    /* the options live in a block of their own that is given back right after the decoder was created: a decoder takes what
     * it needs from the options at creation (added after a seeded change that kept a pointer to the caller's struct) */
    struct aws_utf8_decoder_options *bo = (struct aws_utf8_decoder_options *)malloc(sizeof(*bo));
    memset(bo, 0, sizeof(*bo));
    bo->on_codepoint = on_cp;
    bo->user_data = &both;
    d = aws_utf8_decoder_new(aws_default_allocator(), bo);
    free(bo);
    (void)aws_utf8_decoder_update(d, aws_byte_cursor_from_array(b1, n1));
    (void)aws_utf8_decoder_finalize(d);
    int before = both.n;
    int ok2 = aws_utf8_decoder_update(d, aws_byte_cursor_from_array(b2, n2)) == AWS_OP_SUCCESS;
    if (ok2 && aws_utf8_decoder_finalize(d)) ok2 = 0;
    aws_utf8_decoder_destroy(d);
    reused.n = both.n - before;
    for (int i = 0; i < reused.n && before + i < 8; ++i) reused.cp[i] = both.cp[before + i];
    BEE_CHECK(ok2 == v_fresh, "utf8-reuse-verdict", "text %s after text %s on the same decoder (finalize called in between): verdict %d, a fresh decoder says %d", v_show(t2, n2), v_show(t1, n1), ok2, v_fresh);
    int same = reused.n == fresh.n;
    for (int i = 0; same && i < reused.n && before + i < 8; ++i) same = reused.cp[i] == fresh.cp[i];
    BEE_CHECK(same, "utf8-reuse-codepoints", "text %s after text %s on the same decoder: %d code points (first U+%X), a fresh decoder reports %d (first U+%X)", v_show(t2, n2), v_show(t1, n1), reused.n, reused.cp[0], fresh.n, fresh.cp[0]);
    free(b1);
    free(b2);
}

int main(int argc, char **argv) {
    v_init(argc, argv);
    aws_common_library_init(aws_default_allocator());
    shipped_is_vector = aws_common_private_has_avx2();
    v_out("INFO shipped path vectorised (AVX2): %d", shipped_is_vector);
    V_COUNT("shipped_path_is_avx2", shipped_is_vector);
    bee_register("b64enc", enc_total, enc_eval, 10);
    bee_register("b64dec4", dec4_total, dec4_eval, 10);
    bee_register("b64dec8", dec8_total, dec8_eval, 10);
    bee_register("b64declast", declast_total, declast_eval, 10);
    bee_register("b64decbody", decbody_total, decbody_eval, 10);
    bee_register("hex2", hex2_total, hex2_eval, 10);
    bee_register("hex13", hex13_total, hex13_eval, 10);
    bee_register("hexenc", hexenc_total, hexenc_eval, 10);
    bee_register("lens", lens_total, lens_eval, 10);
    bee_register("utf8", utf8_total, utf8_eval, 10);
    bee_register("utf8reuse", utf8reuse_total, utf8reuse_eval, 10);
    bee_register("utf8long", utf8long_total, utf8long_eval, 10);
    bee_register("declong", declong_total, declong_eval, 10);
    v_sample("b64dec4 index 1234 = 4 symbols over {A B Q / + = NUL - 0xFF}; b64enc index = (len,pos,value,capacity-mode,start-len) odometer");
    return bee_main(argc, argv);
}
