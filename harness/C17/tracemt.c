/*
 * C17 (concurrent half) — memory tracer accounting with several threads on one tracer, under VSX.
 * Parent = galloc (LIFO free lists: an address released by one thread is the next one handed to another,
 * which is exactly the address-reuse situation the tracer's untrack-before-free ordering must survive).
 */
#include <stddef.h>
#ifdef VSX_FREE
#    define GALLOC_PASSTHROUGH 1
#    include "vsx_free.h"
#else
#    include "vsx.h"
#endif
#include "galloc.h"
#include <aws/common/allocator.h>

static struct aws_allocator *T; /* tracing allocator */
static int nthreads_cfg;
static size_t max_hold[4] = {16, 8, 24, 8};

static void fill(uint8_t *p, size_t n, uint8_t seed) {
    for (size_t i = 0; i < n; ++i) p[i] = (uint8_t)(seed + i * 3);
}
static int okfill(const uint8_t *p, size_t n, uint8_t seed) {
    for (size_t i = 0; i < n; ++i)
        if (p[i] != (uint8_t)(seed + i * 3)) return 0;
    return 1;
}
/* a concurrent observer may only see a value between what it holds itself and what all threads could hold */
static void observe(int me, size_t own_bytes, size_t own_count, const char *where) {
    size_t b = aws_mem_tracer_bytes(T), c = aws_mem_tracer_count(T);
    size_t ub = 0;
    for (int i = 0; i < nthreads_cfg; ++i) ub += max_hold[i];
    VS_CHECK(b >= own_bytes && b <= ub, "bytes-out-of-bounds", "thread %d %s: tracer reports %zu bytes, it holds %zu itself and all threads together can hold at most %zu", me, where, b, own_bytes, ub);
    VS_CHECK(c >= own_count && c <= (size_t)nthreads_cfg, "count-out-of-bounds", "thread %d %s: tracer reports %zu allocations, it holds %zu itself, at most %d can be live", me, where, c, own_count, nthreads_cfg);
}
static void *t1(void *a) {
    (void)a;
    uint8_t *p = aws_mem_acquire(T, 8);
    fill(p, 8, 0x11);
    observe(0, 8, 1, "after acquire(8)");
    void *q = p;
    if (aws_mem_realloc(T, &q, 8, 16)) vs_fail("realloc-failed", "realloc failed");
    p = q;
    VS_CHECK(okfill(p, 8, 0x11), "realloc-contents", "first 8 bytes changed across realloc 8->16");
    observe(0, 16, 1, "after realloc(16)");
    aws_mem_release(T, p);
    observe(0, 0, 0, "after release");
    return NULL;
}
static void *t2(void *a) {
    int me = (int)(intptr_t)a;
    uint8_t *p = aws_mem_acquire(T, 8);
    fill(p, 8, 0x22);
    observe(me, 8, 1, "after acquire(8)");
    VS_CHECK(okfill(p, 8, 0x22), "contents", "block contents disturbed by another thread");
    aws_mem_release(T, p);
    return NULL;
}
static void *t3(void *a) {
    (void)a;
    uint8_t *p = aws_mem_calloc(T, 3, 8);
    int z = 1;
    for (int i = 0; i < 24; ++i) z &= p[i] == 0;
    VS_CHECK(z, "calloc-zero", "calloc memory not zeroed");
    size_t b0 = aws_mem_tracer_bytes(T), c0 = aws_mem_tracer_count(T);
    aws_mem_tracer_dump(T);
    (void)b0;
    (void)c0;
    observe(2, 24, 1, "after dump");
    aws_mem_release(T, p);
    return NULL;
}

/* same function on two threads: both allocations come from one call site, so at STACKS level they share one stack record;
 * each thread dumps while the other may be half-way through registering its allocation (added after a seeded change that
 * let go of the tracer's lock between creating the shared stack record and filling it in) */
static void *t4(void *a) {
    int me = (int)(intptr_t)a;
    uint8_t *p = aws_mem_acquire(T, 8);
    fill(p, 8, 0x44);
    aws_mem_tracer_dump(T);
    observe(me, 8, 1, "after dump");
    VS_CHECK(okfill(p, 8, 0x44), "contents", "block contents disturbed by another thread");
    aws_mem_release(T, p);
    return NULL;
}
/* a thread that dumps while it holds nothing itself: on an otherwise empty tracer the dump can run while another thread is
 * half-way through registering its first allocation - byte counter already raised, record not yet in the table (added after
 * a seeded change whose early-out for "no records" kept the tracer's mutex) */
static void *t5(void *a) {
    int me = (int)(intptr_t)a;
    aws_mem_tracer_dump(T);
    observe(me, 0, 0, "after dump with nothing of its own");
    uint8_t *p = aws_mem_acquire(T, 8);
    fill(p, 8, 0x55);
    aws_mem_tracer_dump(T);
    observe(me, 8, 1, "after second dump");
    aws_mem_release(T, p);
    return NULL;
}
static int shared_site, dump_first;
static void run_n(int n, enum aws_mem_trace_level level) {
    galloc_reset();
    struct aws_allocator *parent = galloc_get(2, 1);
    nthreads_cfg = n;
    uint64_t before = ga.live_blocks;
    T = aws_mem_tracer_new(parent, NULL, level, 2);
    pthread_t th[4];
    void *(*fn[4])(void *) = {t1, t2, t3, t2};
    if (shared_site) fn[0] = fn[1] = fn[2] = t4;
    if (dump_first) fn[0] = t2, fn[1] = t5;
    for (int i = 0; i < n; ++i) pthread_create(&th[i], NULL, fn[i], (void *)(intptr_t)i);
    for (int i = 0; i < n; ++i) pthread_join(th[i], NULL);
    VS_CHECK(aws_mem_tracer_bytes(T) == 0, "bytes-at-quiescence", "everything released but the tracer reports %zu bytes outstanding", aws_mem_tracer_bytes(T));
    VS_CHECK(aws_mem_tracer_count(T) == 0, "count-at-quiescence", "everything released but the tracer reports %zu allocations outstanding", aws_mem_tracer_count(T));
    struct aws_allocator *back = aws_mem_tracer_destroy(T);
    VS_CHECK(back == parent, "destroy-returns-parent", "destroy did not return the wrapped allocator");
    VS_CHECK(ga.live_blocks == before, "leak", "parent balance %llu after destroy (was %llu)", (unsigned long long)ga.live_blocks, (unsigned long long)before);
}
static void m2(void) { run_n(2, AWS_MEMTRACE_BYTES); }
static void m3(void) { run_n(3, AWS_MEMTRACE_BYTES); }
static void m2s(void) { run_n(2, AWS_MEMTRACE_STACKS); }
static void m4(void) { run_n(4, AWS_MEMTRACE_BYTES); }
static void m2e(void) {
    dump_first = 1;
    run_n(2, AWS_MEMTRACE_BYTES);
    dump_first = 0;
}
static void m2d(void) {
    shared_site = 1;
    run_n(2, AWS_MEMTRACE_STACKS);
    shared_site = 0;
}

int main(int argc, char **argv) {
    v_init(argc, argv);
    aws_common_library_init(aws_default_allocator());
    struct vsx_scenario sc[] = {
        {.name = "TR2-bytes-two-threads", .run = m2, .bound_quick = 3, .bound_thorough = 4},
        {.name = "TR2-stacks-two-threads", .run = m2s, .bound_quick = 2, .bound_thorough = 3},
        {.name = "TR2-bytes-dump-during-first-acquire", .run = m2e, .bound_quick = 3, .bound_thorough = 4},
        {.name = "TR2-stacks-shared-site-dump", .run = m2d, .bound_quick = 2, .bound_thorough = 3},
        {.name = "TR3-bytes-three-threads", .run = m3, .bound_quick = 2, .bound_thorough = 3},
        {.name = "TR4-bytes-four-threads", .run = m4, .bound_quick = -1, .bound_thorough = 2},
    };
    return vsx_main(sc, (int)(sizeof(sc) / sizeof(sc[0])));
}
