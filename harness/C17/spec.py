LEVEL = "model_checking"
HARNESSES = [
    dict(name="traceseq", src=["traceseq.c"], variant="asan", deadline={"quick": 120, "thorough": 900},
         # every reset() builds a tracer (2 x 48 KiB zeroed tables): a small ASan quarantine recycles those pages instead of faulting in fresh ones
         env={"ASAN_OPTIONS": "quarantine_size_mb=4"}),
]
ASSUMPTIONS = [
    "sequential half only: every call history on one thread (thread interleavings are the concurrent half of C17)",
    "slots p0..p2 (thorough p0..p3); sizes 1, 8, 600; calloc shapes 1x1, 2x4, 3x200; realloc targets 0, 1, 8, 600",
]
