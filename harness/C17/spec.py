LEVEL = "model_checking"

# every reset() builds a tracer (two zeroed 48 KiB tables): a small ASan quarantine recycles those pages
# instead of faulting in fresh ones (cuts system time by 4x; detection of use-after-free inside one
# history is unaffected: a history frees far less than 4 MiB)
_ENV = {"ASAN_OPTIONS": "quarantine_size_mb=4"}

HARNESSES = [
    # sequential half of C17: all call histories on one thread
    dict(name="traceseq", src=["traceseq.c"], variant="asan", deadline={"quick": 240, "thorough": 1500}, env=_ENV, fallback_cflags=["-DNO_WHITEBOX"]),
    # same model on the Debug build (the library's own AWS_PRECONDITION / POSTCONDITION are live in the
    # tracer's hash tables and in allocator.c), 3 slots
    dict(name="traceseq-dbg", src=["traceseq.c"], variant="asan-dbg", tiers=["thorough"], args=["--slots", "3"],
         deadline={"thorough": 600}, env=_ENV, fallback_cflags=["-DNO_WHITEBOX"]),
    # concurrent half: 2-4 threads on one tracer over a LIFO parent, every interleaving at the tracer mutex / atomic counter
    dict(name="tracemt", src=["tracemt.c"], variant="sched", wrap=True, deadline={"quick": 150, "thorough": 1500}),
    # free-running ThreadSanitizer twin of the scenario bodies (DESIGN 4.5): no wrapping, OS scheduler, decides nothing;
    # discharges VSX's proviso that there is no unsynchronised access between schedule points
    dict(name="tracemt-tsan", src=["tracemt.c"], variant="tsan", cflags=["-DVSX_FREE"], tiers=["thorough"], deadline={"thorough": 600}),
]
ASSUMPTIONS = [
    "concurrent half (tracemt): 2-4 threads (acquire/realloc/release, acquire/release, calloc/dump/release) on one BYTES or STACKS tracer over a LIFO parent that forces address reuse across threads; preemption bound 2-3 (quick) / 3-4 (thorough); a concurrent observer is only required to see a value between what it holds itself and what all threads can hold; equality is demanded at quiescence; sequentially consistent interleavings (DESIGN 4.4)",
    "sequential half only: every call history on one thread (thread interleavings are the concurrent half of C17)",
    "slots p0..p2 (thorough p0..p3); sizes 1, 8, 600; calloc shapes 1x1, 2x4, 3x200; realloc targets 0, 1, 8, 600; "
    "24 configurations = level {NONE, BYTES, STACKS/1, STACKS/8} x parent realloc {none, in place when the rounded size is unchanged, always moves} x parent calloc {no, yes}",
    "every configuration is explored to a fixpoint (histories of every length over this alphabet); states are de-duplicated on a "
    "128-bit hash of the canonical state",
    "canonical state abstracts block addresses to roles (block of slot k / j-th entry of a size class's free list); the numeric "
    "address matters to the tracer only through the home bucket of its 2048-bucket table, covered by the probe-displacement field "
    "(counter tracer_table_displaced_entries: no collision ever occurred)",
    "the tracer's bookkeeping lives on aws_default_allocator(); leaks of bookkeeping records are outside the property and not checked",
    "the tracer is destroyed with allocations outstanding (odd number live) or after releasing everything through it (even); both are taken as legal uses",
    "a counting null logger at TRACE level is installed so that aws_mem_tracer_dump does all its work; what it prints is not checked",
]
