/*
 * C17 (sequential half) — memory tracer accounting under ESX (DESIGN §5 C17).
 *
 * Object under test: the allocator returned by aws_mem_tracer_new() wrapping galloc.
 * Every history over { acquire(s), calloc(n,s), realloc(slot,new), release(slot), dump, bytes, count } is
 * driven against a reference live set (slot table with the REQUESTED size of every live allocation).
 *
 * Oracle after every operation:
 *   aws_mem_tracer_bytes == sum of requested sizes of live allocations   (0 at level NONE)
 *   aws_mem_tracer_count == number of live allocations                   (0 at level NONE)
 *   both 0 when nothing is live; dump changes neither;
 *   every live block still carries its per-slot pattern (contents kept across realloc up to
 *   min(old,new), untouched by operations on other slots), calloc hands out zeroed memory;
 *   the parent sees exactly the live user blocks (the tracer keeps its bookkeeping elsewhere), and after
 *   aws_mem_tracer_destroy the parent's balance is what the user blocks alone account for.
 *
 * Configurations: level {NONE, BYTES, STACKS/1 frame, STACKS/8 frames} x parent realloc mode {0 none,
 * 1 in place when the rounded size is unchanged, 2 always moves} x parent with / without mem_calloc.
 *
 * memtrace.c is #included for white-box access to struct alloc_tracer: used ONLY for the canonical
 * state and vacuity evidence (effective level), never for a verdict.
 *
 * Canonical state — why equal canon => equal futures.  Addresses are abstracted to ROLES (block of
 * slot k / j-th block of the free list of class c); the canon contains
 *   (a) the slot table (requested size per slot, 0 = empty) — the whole reference model;
 *   (b) the parent-allocator state up to renaming of addresses: parent-recorded size of every live block
 *       (decides in-place vs move in mode 1; stays larger after a mode-0 shrink) and the length of each
 *       size class's free list (galloc is LIFO per class: empty list = fresh address, else the most
 *       recently freed one comes back);
 *   (c) the complete tracer accounting state: `allocated`, entry count, table size and every entry of the
 *       address -> alloc_info table as (role of the key, recorded size, probe displacement), sorted;
 *   (d) the publicly reported bytes / count.
 * Two concrete states with equal canon differ only by a bijection between their blocks that maps slot
 * blocks to slot blocks, free-list positions to free-list positions and tracer keys to tracer keys; the
 * parent and the tracer treat an address only as an identity (LIFO list link / hash key), so every future
 * history gives the same observations.  The one place where the numeric value matters — the home bucket
 * of the key in the tracer's table — is covered by the displacement field (0 = sits in its home bucket;
 * counter tracer_table_displaced_entries shows whether a collision ever happened).
 * Block contents are a function of (a) (per-slot pattern, re-established after each op).  Left out, because
 * no verdict can depend on them: alloc_info.time (real clock; only orders the dump), alloc_info.stack and
 * the `stacks` table (only read by dump, depend on the call site), galloc serial / call counters (grow
 * for ever), layout of the malloc heap that holds the bookkeeping.  The space is finite: a size class
 * never has more than NS+1 blocks (a new block is only carved when the class's free list is empty).
 */
#include "esx.h"
#include "galloc.h"

#ifndef NO_WHITEBOX
#    include "memtrace.c" /* library TU under test: white-box struct alloc_tracer */
#    include <aws/common/private/hash_table_impl.h>
#else
/* fallback build (the driver retries with -DNO_WHITEBOX when the private structures of memtrace.c / hash_table_impl.h
 * no longer have the shape the white-box part expects): public API only.  The canonical state then lacks the tracer's
 * own table, so "equal canon => equal futures" holds only as far as bytes/count are a faithful image of it; the run is
 * reported as degraded. */
#    include <aws/common/allocator.h>
#    include <aws/common/atomics.h>
#    include <aws/common/hash_table.h>
#    include <aws/common/logging.h>
#endif

#define MAXS 4
#define NSIZES 3
static const size_t SZ[NSIZES] = {1, 8, 600};
/* calloc shapes: num * size lands on the same three totals, num > 1 so that "counted size instead of
 * num*size" is visible */
static const size_t CN[NSIZES] = {1, 2, 3};
static const size_t CS[NSIZES] = {1, 4, 200};
static const size_t RZ[4] = {0, 1, 8, 600}; /* realloc targets */

struct cfg {
    char name[48];
    enum aws_mem_trace_level level;
    size_t frames;
    int rmode;
    int wcalloc;
};
static struct cfg g_cfg;
static int NS = 3;

/* ---- objects + reference ---- */
static struct aws_allocator *parent;
static struct aws_allocator *tr;
struct slot {
    uint8_t *p;
    size_t size; /* requested size; meaningful iff p */
};
static struct slot sl[MAXS];
#define MAXFREED 64
static void *freed[MAXFREED]; /* addresses that left the live set in this history (vacuity: address reuse) */
static int nfreed;

/* ---- ops ---- */
enum {
    OP_ACQ = 0,               /* 0..2  acquire(SZ[i]) into the lowest empty slot */
    OP_CAL = 3,               /* 3..5  calloc(CN[i], CS[i]) into the lowest empty slot */
    OP_DUMP = 6,
    OP_BYTES = 7,
    OP_COUNT = 8,
    OP_REL = 9,               /* 9..12 release(slot) (empty slot: release(NULL), documented no-op) */
    OP_REALLOC = 9 + MAXS,    /* 13..28 realloc(slot, RZ[k]) = OP_REALLOC + slot*4 + k */
    NOPS = 9 + MAXS + MAXS * 4
};

#define MAXSZ 600
static uint8_t PAT[MAXS][MAXSZ]; /* per-slot pattern, built once in main */
static uint8_t ZERO[MAXSZ];
static uint8_t pat(int k, size_t i) { return PAT[k][i]; }
static void pat_init(void) {
    for (int k = 0; k < MAXS; ++k)
        for (size_t i = 0; i < MAXSZ; ++i) PAT[k][i] = (uint8_t)(0x31 + k * 0x47 + i * 13 + (i >> 8) * 5);
}
/* first index in [0,n) where p differs from q, or n */
static size_t first_diff(const uint8_t *p, const uint8_t *q, size_t n) {
    if (memcmp(p, q, n) == 0) return n;
    size_t i = 0;
    while (i < n && p[i] == q[i]) ++i;
    return i;
}

static int nlive(void) {
    int n = 0;
    for (int k = 0; k < NS; ++k) n += sl[k].p != NULL;
    return n;
}
static size_t live_bytes(void) {
    size_t n = 0;
    for (int k = 0; k < NS; ++k)
        if (sl[k].p) n += sl[k].size;
    return n;
}
static int empty_slot(void) {
    for (int k = 0; k < NS; ++k)
        if (!sl[k].p) return k;
    return -1;
}

static void note_freed(void *p) {
    if (p && nfreed < MAXFREED) freed[nfreed++] = p;
}
static void note_obtained(void *p) {
    for (int i = 0; i < nfreed; ++i)
        if (freed[i] == p) {
            V_COUNT("address_reuse_after_release", 1);
            freed[i] = freed[--nfreed];
            return;
        }
}

static int g_dump_in_progress;
static size_t g_dump_bytes;
/* ---- counting null logger: the dump does all its work, the lines go nowhere ---- */
static int nl_log(struct aws_logger *l, enum aws_log_level lvl, aws_log_subject_t subj, const char *fmt, ...) {
    (void)l;
    (void)lvl;
    (void)subj;
    char buf[512];
    va_list ap;
    va_start(ap, fmt);
    vsnprintf(buf, sizeof(buf), fmt, ap); /* reads every argument (a dangling trace string would be an ASan error) */
    va_end(ap);
    V_COUNT("dump_log_lines", 1);
    if (strncmp(buf, "ALLOC ", 6) == 0) V_COUNT("dump_alloc_lines", 1);
    /* a logger that stamps its lines with the tracer's byte total: aws_mem_tracer_bytes() is a plain atomic load, the one
     * query that can be made while the dump holds the tracer's mutex; it has to return, with the total the dump started from
     * (added after a seeded change that made the query take that mutex: the dump then never returns) */
    if (g_dump_in_progress) {
        size_t b = aws_mem_tracer_bytes(tr);
        V_COUNT("byte_total_queries_from_the_dump_logger", 1);
        if (b != g_dump_bytes) esx_fail("dump-changed-accounting", "aws_mem_tracer_bytes() called by the logger during the dump: %zu, the dump started with %zu", b, g_dump_bytes);
    }
    return AWS_OP_SUCCESS;
}
static enum aws_log_level nl_level(struct aws_logger *l, aws_log_subject_t s) {
    (void)l;
    (void)s;
    return AWS_LL_TRACE;
}
static void nl_clean(struct aws_logger *l) { (void)l; }
static struct aws_logger_vtable nl_vtable = {.log = nl_log, .get_log_level = nl_level, .clean_up = nl_clean, .set_log_level = NULL};
static struct aws_logger nl_logger = {.vtable = &nl_vtable, .allocator = NULL, .p_impl = NULL};

/* ---- model ---- */
static void m_reset(void) {
    galloc_reset();
    parent = galloc_get(g_cfg.rmode, g_cfg.wcalloc);
    tr = aws_mem_tracer_new(parent, NULL, g_cfg.level, g_cfg.frames);
    memset(sl, 0, sizeof(sl));
    memset(freed, 0, sizeof(freed));
    nfreed = 0;
#ifndef NO_WHITEBOX
    struct alloc_tracer *t = (struct alloc_tracer *)tr->impl;
    if (t->level != g_cfg.level) { /* backtrace unavailable: the library clamps STACKS to BYTES — the run would be vacuous */
        fprintf(stderr, "traceseq: tracer level clamped (%d instead of %d): no backtrace support\n", (int)t->level, (int)g_cfg.level);
        _exit(2);
    }
#endif
}

static const char *cur_name(void);
#define after cur_name()
static void check_all(void) {
    size_t eb = g_cfg.level == AWS_MEMTRACE_NONE ? 0 : live_bytes();
    size_t ec = g_cfg.level == AWS_MEMTRACE_NONE ? 0 : (size_t)nlive();
    size_t b = aws_mem_tracer_bytes(tr), c = aws_mem_tracer_count(tr);
    if (g_cfg.level == AWS_MEMTRACE_NONE) {
        ESX_CHECK(b == 0 && c == 0, "level-none-nonzero", "after %s: tracing is off but bytes=%zu count=%zu", after, b, c);
    } else {
        ESX_CHECK(b == eb, "bytes", "after %s: aws_mem_tracer_bytes=%zu, live allocations sum to %zu (%d live)", after, b, eb, nlive());
        ESX_CHECK(c == ec, "count", "after %s: aws_mem_tracer_count=%zu, %zu allocations are live", after, c, ec);
    }
    for (int k = 0; k < NS && !esx_failed; ++k) {
        if (!sl[k].p) continue;
        ESX_CHECK(galloc_is_live(sl[k].p), "block-not-live", "after %s: block of slot %d is not a live block of the wrapped allocator", after, k);
        if (esx_failed) return;
        for (int j = 0; j < k; ++j) ESX_CHECK(sl[j].p != sl[k].p, "aliased", "after %s: slots %d and %d share one address", after, j, k);
        size_t i = first_diff(sl[k].p, PAT[k], sl[k].size);
        if (i < sl[k].size) esx_fail("contents", "after %s: slot %d (size %zu) byte %zu is 0x%02x, expected 0x%02x", after, k, sl[k].size, i, sl[k].p[i], pat(k, i));
    }
    ESX_CHECK(ga.live_blocks == (uint64_t)nlive(), "parent-balance", "after %s: wrapped allocator has %llu live blocks, user holds %d", after,
              (unsigned long long)ga.live_blocks, nlive());
}

#undef after

static void m_teardown(void) {
    if (esx_failed) return; /* state may be inconsistent after a violation; the worker's memory is reset anyway */
    int n = nlive();
    if ((n & 1) == 0) {
        /* release everything through the tracer: accounting must return to zero, then destroy */
        for (int k = 0; k < NS; ++k)
            if (sl[k].p) {
                aws_mem_release(tr, sl[k].p);
                sl[k].p = NULL;
            }
        size_t b = aws_mem_tracer_bytes(tr), c = aws_mem_tracer_count(tr);
        ESX_CHECK(b == 0 && c == 0, "all-released-nonzero", "everything released (%d blocks) but bytes=%zu count=%zu", n, b, c);
        ESX_CHECK(ga.live_blocks == 0, "parent-balance", "everything released but the wrapped allocator has %llu live blocks", (unsigned long long)ga.live_blocks);
        struct aws_allocator *orig = aws_mem_tracer_destroy(tr);
        ESX_CHECK(orig == parent, "destroy-returns-parent", "aws_mem_tracer_destroy did not return the wrapped allocator");
        ESX_CHECK(ga.live_blocks == 0, "parent-balance-after-destroy", "after destroy: %llu blocks live in the wrapped allocator", (unsigned long long)ga.live_blocks);
    } else {
        /* destroy with allocations outstanding: the blocks stay valid and belong to the parent */
        struct aws_allocator *orig = aws_mem_tracer_destroy(tr);
        ESX_CHECK(orig == parent, "destroy-returns-parent", "aws_mem_tracer_destroy did not return the wrapped allocator");
        ESX_CHECK(ga.live_blocks == (uint64_t)n, "parent-balance-after-destroy", "after destroy with %d blocks outstanding: %llu blocks live in the wrapped allocator", n,
                  (unsigned long long)ga.live_blocks);
        for (int k = 0; k < NS && !esx_failed; ++k)
            if (sl[k].p) {
                size_t i = first_diff(sl[k].p, PAT[k], sl[k].size);
                if (i < sl[k].size) esx_fail("contents", "after destroy: slot %d byte %zu damaged", k, i);
                aws_mem_release(parent, sl[k].p);
                sl[k].p = NULL;
            }
        ESX_CHECK(ga.live_blocks == 0, "parent-balance-after-destroy", "after destroy and release to the parent: %llu blocks live", (unsigned long long)ga.live_blocks);
    }
    tr = NULL;
}

static bool m_enabled(int op) {
    if (op < OP_DUMP) return empty_slot() >= 0;
    if (op < OP_REL) return true;
    if (op < OP_REALLOC) return op - OP_REL < NS;
    return (op - OP_REALLOC) / 4 < NS;
}

static void m_opname(int op, char *buf, size_t cap) {
    if (op < OP_CAL) snprintf(buf, cap, "acquire(%zu)", SZ[op]);
    else if (op < OP_DUMP) snprintf(buf, cap, "calloc(%zu,%zu)", CN[op - OP_CAL], CS[op - OP_CAL]);
    else if (op == OP_DUMP) snprintf(buf, cap, "dump");
    else if (op == OP_BYTES) snprintf(buf, cap, "bytes");
    else if (op == OP_COUNT) snprintf(buf, cap, "count");
    else if (op < OP_REALLOC) snprintf(buf, cap, "release(p%d)", op - OP_REL);
    else snprintf(buf, cap, "realloc(p%d,%zu)", (op - OP_REALLOC) / 4, RZ[(op - OP_REALLOC) % 4]);
}

/* name of the operation being applied, formatted only when a message needs it */
static int cur_op;
static const char *cur_name(void) {
    static char nm[48];
    m_opname(cur_op, nm, sizeof(nm));
    return nm;
}
#define nm cur_name()

/* level "st128": the tracer keeps 128 frames per stack (the documented maximum) and every allocating call is made from
 * the bottom of a 100-deep call chain, so that a backtrace really has that many frames to deliver (added after a seeded
 * change that capped the scratch array at 64 frames while still asking for frames_per_stack) */
struct deep_req {
    int kind; /* 0 acquire, 1 calloc, 2 realloc */
    size_t a, b;
    void **pp;
    void *ret;
    int rc;
};
static int g_deep_depth;
static __attribute__((noinline)) void deep_call(volatile int n, struct deep_req *r) {
    if (n > 0) {
        deep_call(n - 1, r);
        __asm__ volatile("" ::: "memory"); /* no tail call: every level keeps its frame */
        return;
    }
    if (r->kind == 0) r->ret = aws_mem_acquire(tr, r->a);
    else if (r->kind == 1) r->ret = aws_mem_calloc(tr, r->a, r->b);
    else r->rc = aws_mem_realloc(tr, r->pp, r->a, r->b);
}
static void *h_acquire(size_t n) {
    struct deep_req r = {.kind = 0, .a = n};
    deep_call(g_deep_depth, &r);
    return r.ret;
}
static void *h_calloc(size_t n, size_t sz) {
    struct deep_req r = {.kind = 1, .a = n, .b = sz};
    deep_call(g_deep_depth, &r);
    return r.ret;
}
static int h_realloc(void **pp, size_t o, size_t n) {
    struct deep_req r = {.kind = 2, .a = o, .b = n, .pp = pp};
    deep_call(g_deep_depth, &r);
    return r.rc;
}
/* configurations "-oom": every operation starts with AWS_ERROR_OOM in the thread's last-error slot, left there by an unrelated
 * failure (a full ring buffer, say): the accounting is a function of the calls made through the tracer, not of the calling
 * thread's error state (added after a seeded change whose realloc consulted aws_last_error() to decide whether it had failed) */
static int g_amb_oom;
static void m_apply(int op) {
    cur_op = op;
    if (g_amb_oom) aws_raise_error(AWS_ERROR_OOM);
    if (op < OP_DUMP) {
        int k = empty_slot();
        bool is_calloc = op >= OP_CAL;
        int i = is_calloc ? op - OP_CAL : op;
        size_t size = is_calloc ? CN[i] * CS[i] : SZ[i];
        uint8_t *p = (uint8_t *)(is_calloc ? h_calloc(CN[i], CS[i]) : h_acquire(size));
        ESX_CHECK(p != NULL, "null-result", "%s returned NULL", nm);
        if (esx_failed) return;
        ESX_CHECK(galloc_is_live(p), "block-not-live", "%s returned %s", nm, "a pointer that is not a live block of the wrapped allocator");
        if (esx_failed) return;
        note_obtained(p);
        if (is_calloc) {
            size_t j = first_diff(p, ZERO, size);
            if (j < size) {
                esx_fail("calloc-not-zeroed", "%s: byte %zu is 0x%02x", nm, j, p[j]);
                return;
            }
            V_COUNT("callocs", 1);
        }
        memcpy(p, PAT[k], size);
        sl[k].p = p;
        sl[k].size = size;
        check_all();
        return;
    }
    if (op == OP_DUMP) {
        size_t b0 = aws_mem_tracer_bytes(tr), c0 = aws_mem_tracer_count(tr);
        g_dump_bytes = b0;
        g_dump_in_progress = 1;
        aws_mem_tracer_dump(tr);
        g_dump_in_progress = 0;
        size_t b1 = aws_mem_tracer_bytes(tr), c1 = aws_mem_tracer_count(tr);
        ESX_CHECK(b0 == b1 && c0 == c1, "dump-changed-accounting", "dump: bytes %zu -> %zu, count %zu -> %zu", b0, b1, c0, c1);
        if (nlive()) V_COUNT("dumps_with_live_blocks", 1);
        if (!esx_failed) check_all();
        return;
    }
    if (op == OP_BYTES || op == OP_COUNT) {
        check_all(); /* the queries are made after every operation anyway; as operations they must be pure */
        return;
    }
    if (op < OP_REALLOC) {
        int k = op - OP_REL;
        if (!sl[k].p) V_COUNT("release_null", 1);
        aws_mem_release(tr, sl[k].p);
        note_freed(sl[k].p);
        sl[k].p = NULL;
        sl[k].size = 0;
        check_all();
        return;
    }
    /* realloc(slot k, new size) */
    int k = (op - OP_REALLOC) / 4;
    size_t nsz = RZ[(op - OP_REALLOC) % 4];
    uint8_t *oldp = sl[k].p;
    size_t osz = oldp ? sl[k].size : 0;
    void *p = oldp;
    aws_reset_error();
    if (g_amb_oom) aws_raise_error(AWS_ERROR_OOM);
    int rc = h_realloc(&p, osz, nsz);
    ESX_CHECK(rc == AWS_OP_SUCCESS, "realloc-result", "%s (old size %zu) returned %d, error %d", nm, osz, rc, aws_last_error());
    if (esx_failed) return;
    if (nsz == 0) {
        ESX_CHECK(p == NULL, "realloc-zero-pointer", "%s: pointer not cleared by realloc to 0", nm);
        if (oldp) V_COUNT("realloc_to_zero", 1);
        else V_COUNT("realloc_null_to_zero", 1);
        note_freed(oldp);
        sl[k].p = NULL;
        sl[k].size = 0;
        check_all();
        return;
    }
    ESX_CHECK(p != NULL, "null-result", "%s returned a NULL pointer", nm);
    if (esx_failed) return;
    ESX_CHECK(galloc_is_live(p), "block-not-live", "%s returned %s", nm, "a pointer that is not a live block of the wrapped allocator");
    if (esx_failed) return;
    if (!oldp) V_COUNT("realloc_from_null", 1);
    else {
        if (p != (void *)oldp) {
            V_COUNT("realloc_moved", 1);
            note_freed(oldp);
            note_obtained(p);
        } else
            V_COUNT("realloc_stayed", 1);
        if (nsz > osz) V_COUNT("realloc_grow", 1);
        else if (nsz < osz) V_COUNT("realloc_shrink", 1);
        else V_COUNT("realloc_same_size", 1);
    }
    if (!oldp) note_obtained(p);
    size_t keep = osz < nsz ? osz : nsz;
    uint8_t *np = (uint8_t *)p;
    size_t j = first_diff(np, PAT[k], keep);
    if (j < keep) {
        esx_fail("realloc-contents", "%s (old size %zu, %s): byte %zu is 0x%02x, was 0x%02x", nm, osz, p == (void *)oldp ? "in place" : "moved", j, np[j], pat(k, j));
        return;
    }
    memcpy(np + keep, PAT[k] + keep, nsz - keep);
    sl[k].p = np;
    sl[k].size = nsz;
    check_all();
}

#undef nm

/* ---- canonical state ---- */
static void put16(uint8_t *b, size_t *o, size_t v) {
    b[(*o)++] = (uint8_t)(v & 0xff);
    b[(*o)++] = (uint8_t)((v >> 8) & 0xff);
}
static void put32(uint8_t *b, size_t *o, size_t v) {
    put16(b, o, v & 0xffff);
    put16(b, o, (v >> 16) & 0xffff);
}

/* Role of an address, independent of its numeric value: 0x0000+k = block of live slot k;
 * 0x4000 + class*32 + j = j-th block (from the head) of the free list of that size class;
 * 0xfffe = NULL; 0xffff = anything else. */
GA_NOSAN static size_t addr_role(const void *user) {
    if (!user) return 0xfffe;
    for (int k = 0; k < NS; ++k)
        if (sl[k].p == (const uint8_t *)user) return (size_t)k;
    for (int i = 0; i < NSIZES; ++i) {
        size_t cls = ga_round(SZ[i]) / 16;
        if (i > 0 && cls == ga_round(SZ[i - 1]) / 16) continue;
        size_t j = 0;
        for (struct ga_hdr *f = ga.free_small[cls]; f; f = f->next_free, ++j)
            if ((const uint8_t *)f + GA_RZ == (const uint8_t *)user) return 0x4000 + (size_t)i * 32 + (j > 31 ? 31 : j);
    }
    return 0xffff;
}
GA_NOSAN static size_t free_len(size_t cls) {
    size_t j = 0;
    for (struct ga_hdr *f = ga.free_small[cls]; f; f = f->next_free) ++j;
    return j;
}

static int cmp_ent(const void *x, const void *y) { return memcmp(x, y, 6); }

/* every address that has a role right now */
GA_NOSAN static size_t cand_addrs(const void **out) {
    size_t n = 0;
    out[n++] = NULL;
    for (int k = 0; k < NS; ++k)
        if (sl[k].p) out[n++] = sl[k].p;
    for (int i = 0; i < NSIZES; ++i) {
        size_t cls = ga_round(SZ[i]) / 16;
        if (i > 0 && cls == ga_round(SZ[i - 1]) / 16) continue;
        size_t j = 0;
        for (struct ga_hdr *f = ga.free_small[cls]; f && j < MAXS + 1; f = f->next_free, ++j) out[n++] = (const uint8_t *)f + GA_RZ;
    }
    return n;
}

#ifndef NO_WHITEBOX
/* (role of the key, recorded size, probe displacement) of one table entry; struct hash_table_entry starts with its element */
static void canon_entry(uint8_t *e, const struct hash_table_state *hs, const struct hash_table_entry *he) {
    size_t oo = 0;
    size_t role = addr_role(he->element.key);
    e[oo++] = (uint8_t)(role >> 8); /* big-endian so that memcmp sorts by role */
    e[oo++] = (uint8_t)(role & 0xff);
    const struct alloc_info *ai = (const struct alloc_info *)he->element.value;
    put16(e, &oo, ai ? ai->size : 0xffff);
    size_t idx = (size_t)(he - hs->slots);
    size_t disp = (idx - (size_t)(he->hash_code & hs->mask)) & hs->mask; /* non-zero only after a collision */
    if (disp) V_COUNT("tracer_table_displaced_entries", 1);
    put16(e, &oo, disp);
}
#endif

static size_t m_canon(uint8_t *b, size_t cap) {
    (void)cap;
    size_t o = 0;
    /* (a) reference + (b) parent state up to renaming of addresses */
    for (int k = 0; k < NS; ++k) {
        put16(b, &o, sl[k].p ? sl[k].size : 0);
        put16(b, &o, sl[k].p ? galloc_size_of(sl[k].p) : 0); /* parent-recorded size: in-place vs move in mode 1; stays larger after a mode-0 shrink */
    }
    for (int i = 0; i < NSIZES; ++i) {
        size_t cls = ga_round(SZ[i]) / 16;
        if (i > 0 && cls == ga_round(SZ[i - 1]) / 16) continue;
        size_t n = free_len(cls);
        if (n > (size_t)NS + 1) {
            fprintf(stderr, "traceseq: free list of class %zu has %zu blocks (bound argued: %d)\n", cls, n, NS + 1);
            _exit(2);
        }
        b[o++] = (uint8_t)n;
    }
    b[o++] = (uint8_t)(ga.live_blocks > 250 ? 250 : ga.live_blocks);
    /* (d) public observations */
    put32(b, &o, aws_mem_tracer_bytes(tr));
    put32(b, &o, aws_mem_tracer_count(tr));
#ifndef NO_WHITEBOX
    /* (c) tracer accounting state */
    struct alloc_tracer *t = (struct alloc_tracer *)tr->impl;
    if (t->level != AWS_MEMTRACE_NONE) {
        put32(b, &o, aws_atomic_load_int(&t->allocated));
        struct hash_table_state *hs = (struct hash_table_state *)t->allocs.p_impl;
        put16(b, &o, hs->entry_count);
        put16(b, &o, hs->size); /* the table never grows here (1024 expected entries) */
        uint8_t ent[16][6];
        size_t ne = 0;
        /* entries are located by probing with every address that has a role (slot blocks, free-list blocks,
         * NULL); only if the table holds more entries than that is it scanned bucket by bucket */
        const void *cand[MAXS + 2 * (MAXS + 1) + 1];
        size_t nc = cand_addrs(cand);
        for (size_t ci = 0; ci < nc && ne < hs->entry_count; ++ci) {
            struct aws_hash_element *el = NULL;
            aws_hash_table_find(&t->allocs, cand[ci], &el);
            if (el) canon_entry(ent[ne++], hs, (struct hash_table_entry *)el);
        }
        if (ne != hs->entry_count) {
            ne = 0;
            for (size_t i = 0; i < hs->size; ++i) {
                if (hs->slots[i].hash_code == 0) continue;
                if (ne == 16) {
                    fprintf(stderr, "traceseq: more than 16 tracer entries\n");
                    _exit(2);
                }
                canon_entry(ent[ne++], hs, &hs->slots[i]);
            }
        }
        qsort(ent, ne, 6, cmp_ent);
        memcpy(b + o, ent, ne * 6);
        o += ne * 6;
    }
#endif
    return o;
}

static struct esx_model model = {
    .nops = NOPS, .reset = m_reset, .enabled = m_enabled, .apply = m_apply, .canon = m_canon,
    .opname = m_opname, .teardown = m_teardown,
};

static void set_cfg(int lv, int rmode, int wcalloc) {
    g_amb_oom = 0;
    static const char *lvn[5] = {"none", "bytes", "st1", "st8", "st128"};
    g_cfg.level = lv == 0 ? AWS_MEMTRACE_NONE : lv == 1 ? AWS_MEMTRACE_BYTES : AWS_MEMTRACE_STACKS;
    g_cfg.frames = lv == 2 ? 1 : lv == 3 ? 8 : lv == 4 ? 128 : 0;
    g_deep_depth = lv == 4 ? 100 : 0;
    g_cfg.rmode = rmode;
    g_cfg.wcalloc = wcalloc;
    snprintf(g_cfg.name, sizeof(g_cfg.name), "ts-%s-r%d-c%d", lvn[lv], rmode, wcalloc);
    model.name = g_cfg.name;
}

int main(int argc, char **argv) {
    v_init(argc, argv);
    aws_common_library_init(aws_default_allocator());
    aws_logger_set(&nl_logger);
    pat_init();
    NS = v_thorough() ? 4 : 3;
    for (int i = 1; i + 1 < argc; ++i) /* spec.py: the Debug-build pass of the thorough tier uses 3 slots */
        if (!strcmp(argv[i], "--slots")) NS = atoi(argv[i + 1]) == 4 ? 4 : 3;
    int rc = 0;
    for (int lv = 0; lv < 5; ++lv)
        for (int rmode = 0; rmode < 3; ++rmode)
            for (int wc = 0; wc < 2; ++wc) {
                if (lv == 4 && (rmode != 0 || wc != 0) && !v_thorough()) continue; /* quick: one st128 configuration */
                set_cfg(lv, rmode, wc);
                if (v_replay_token) {
                    if (esx_token_is_for(v_replay_token, g_cfg.name)) rc |= esx_replay(&model, v_replay_token);
                    continue;
                }
                model.max_depth = 40; /* fixpoint expected long before */
                esx_run(&model);
                ESX_CYCLES(&model);
            }
    /* the BYTES level once more with a stale OOM on the thread before every operation (realloc stays in place / moves) */
    for (int rmode = 1; rmode < 3; ++rmode) {
        set_cfg(1, rmode, 0);
        g_amb_oom = 1;
        strncat(g_cfg.name, "-oom", sizeof(g_cfg.name) - strlen(g_cfg.name) - 1);
        if (v_replay_token) {
            if (esx_token_is_for(v_replay_token, g_cfg.name)) rc |= esx_replay(&model, v_replay_token);
            continue;
        }
        model.max_depth = 40;
        esx_run(&model);
        ESX_CYCLES(&model);
    }
    g_amb_oom = 0;
    v_finish();
    return (v_sh->viol_count || rc) ? 1 : 0;
}
