/*
 * vcommon.h — shared plumbing for every harness (header-only; include once per harness TU).
 *
 *  - line protocol on stdout, parsed by /verif/check:
 *        STAT <key> <uint>          summed per key over all runs of a property (max_* keys: maximum)
 *        SAMPLE <text>              an actual case, verbatim
 *        VIOL sig=<sig> replay=<token> frames=<pcs|-> :: <message>
 *        EXHAUSTIVE <0|1>           0 if any cap / deadline was hit
 *        INFO <text>
 *  - vpool: run an index space [0,total) in forked workers with crash / ASan / hang capture; a dying
 *    worker is turned into a VIOL naming the single item it was evaluating and the worker is
 *    restarted behind that item (DESIGN §4.2 "Isolation", §4.3).
 *  - deterministic environment: ASLR off (re-exec once), TZ=UTC, LC_ALL=C.
 */
#ifndef VCOMMON_H
#define VCOMMON_H
#ifndef _GNU_SOURCE
#    define _GNU_SOURCE 1
#endif
#include <errno.h>
#include <inttypes.h>
#include <signal.h>
#include <stdarg.h>
#include <stdbool.h>
#include <stdint.h>
#include <stdio.h>
#include <stdlib.h>
#include <string.h>
#include <sys/mman.h>
#include <sys/personality.h>
#include <sys/time.h>
#include <sys/wait.h>
#include <time.h>
#include <unistd.h>

#define V_MAX_WORKERS 32
#define V_MAX_COUNTERS 96
#define V_MSG 6144

/* ------------------------------------------------------------------ shared page ------------- */
struct v_slot {
    volatile uint64_t cur;      /* item being evaluated */
    volatile uint64_t next;     /* next item to evaluate after a restart */
    volatile int in_item;       /* 1 while inside the evaluation of cur */
    volatile int done;
    volatile uint64_t counters[V_MAX_COUNTERS];
    char crumb[1024];           /* harness-written description of the current item (replay token) */
    char report[V_MSG];         /* ASan report text or harness message */
};
struct v_shared {
    struct v_slot slot[V_MAX_WORKERS + 1];
    volatile uint64_t viol_count;
    volatile uint64_t sample_count;
    const char *volatile names[V_MAX_COUNTERS]; /* string literals: same address in every fork */
    volatile int ncounters;
    volatile int lock;
    volatile uint64_t sig_hash[512]; /* per-signature line limiter */
    volatile uint32_t sig_count[512];
};
static struct v_shared *v_sh;
static int v_worker = V_MAX_WORKERS; /* index of my slot; the last slot belongs to the parent */
#define v_counter_name (v_sh->names)
#define v_ncounters (v_sh->ncounters)
static double v_deadline_at; /* absolute monotonic seconds; 0 = none */
static int v_exhaustive = 1;
static const char *v_tier = "quick";
static const char *v_replay_token;
static int v_nworkers = 16;
static int v_max_samples = 6;
static uint64_t v_max_viol_lines = 400;

static double v_now(void) {
    struct timespec ts;
    clock_gettime(CLOCK_MONOTONIC, &ts);
    return (double)ts.tv_sec + 1e-9 * (double)ts.tv_nsec;
}
static bool v_past_deadline(void) { return v_deadline_at > 0 && v_now() > v_deadline_at; }
static bool v_thorough(void) { return strcmp(v_tier, "thorough") == 0; }

static void v_out(const char *fmt, ...) {
    char buf[8192];
    va_list ap;
    va_start(ap, fmt);
    int n = vsnprintf(buf, sizeof(buf) - 1, fmt, ap);
    va_end(ap);
    if (n < 0) return;
    if (n > (int)sizeof(buf) - 2) n = (int)sizeof(buf) - 2;
    for (int i = 0; i < n; ++i)
        if (buf[i] == '\n' || buf[i] == '\r') buf[i] = ' ';
    buf[n++] = '\n';
    ssize_t w = write(1, buf, (size_t)n); /* one write per line: atomic between workers */
    (void)w;
}

static int v_counter(const char *name) {
    while (__sync_lock_test_and_set(&v_sh->lock, 1)) {
    }
    int r = -1;
    for (int i = 0; i < v_ncounters; ++i)
        if (strcmp(v_counter_name[i], name) == 0) r = i;
    if (r < 0) {
        if (v_ncounters >= V_MAX_COUNTERS) {
            fprintf(stderr, "too many counters\n");
            _exit(2);
        }
        v_counter_name[v_ncounters] = name;
        r = v_ncounters;
        v_ncounters = r + 1;
    }
    __sync_lock_release(&v_sh->lock);
    return r;
}
#define V_COUNT(name, n)                                                                                         \
    do {                                                                                                         \
        static int v__c = -1;                                                                                    \
        if (v__c < 0) v__c = v_counter(name);                                                                    \
        v_sh->slot[v_worker].counters[v__c] += (uint64_t)(n);                                                    \
    } while (0)
#define V_MAXSTAT(name, n)                                                                                       \
    do {                                                                                                         \
        static int v__c = -1;                                                                                    \
        if (v__c < 0) v__c = v_counter(name);                                                                    \
        if ((uint64_t)(n) > v_sh->slot[v_worker].counters[v__c]) v_sh->slot[v_worker].counters[v__c] = (n);     \
    } while (0)

static void v_crumb(const char *fmt, ...) {
    va_list ap;
    va_start(ap, fmt);
    vsnprintf(v_sh->slot[v_worker].crumb, sizeof(v_sh->slot[v_worker].crumb), fmt, ap);
    va_end(ap);
}
static const char *v_get_crumb(void) { return v_sh->slot[v_worker].crumb; }

static void v_sample(const char *fmt, ...) {
    if (__sync_fetch_and_add(&v_sh->sample_count, 1) >= (uint64_t)v_max_samples) return;
    char buf[1500];
    va_list ap;
    va_start(ap, fmt);
    vsnprintf(buf, sizeof(buf), fmt, ap);
    va_end(ap);
    v_out("SAMPLE %s", buf);
}

/* A functional violation found by the harness oracle.  sig must be specific and stable
 * (harness/oracle-clause/witness-class); replay token = v_crumb unless given. */
static bool v_sig_admit(const char *sig);
static void v_viol(const char *sig, const char *fmt, ...) {
    uint64_t n = __sync_fetch_and_add(&v_sh->viol_count, 1);
    V_COUNT("violations_raw", 1);
    (void)n;
    if (!v_sig_admit(sig)) return;
    char buf[3000];
    va_list ap;
    va_start(ap, fmt);
    vsnprintf(buf, sizeof(buf), fmt, ap);
    va_end(ap);
    v_out("VIOL sig=%s replay=%s frames=- :: %s", sig, v_get_crumb()[0] ? v_get_crumb() : "-", buf);
}

/* returns true if a line for this signature should still be printed (first 3 witnesses per signature) */
static bool v_sig_admit(const char *sig) {
    uint64_t h = 0xcbf29ce484222325ull;
    for (const char *p = sig; *p; ++p) h = (h ^ (uint8_t)*p) * 0x100000001b3ull;
    if (!h) h = 1;
    for (unsigned i = 0, k = (unsigned)(h & 511); i < 512; ++i, k = (k + 1) & 511) {
        uint64_t cur = v_sh->sig_hash[k];
        if (cur == 0) {
            uint64_t old = __sync_val_compare_and_swap(&v_sh->sig_hash[k], 0, h);
            cur = old ? old : h;
        }
        if (cur == h) return __sync_fetch_and_add(&v_sh->sig_count[k], 1) < 3;
    }
    return false;
}

static void v_hex(char *dst, size_t cap, const void *src, size_t n) {
    static const char *d = "0123456789abcdef";
    const uint8_t *p = (const uint8_t *)src;
    size_t o = 0;
    for (size_t i = 0; i < n && o + 3 < cap; ++i) {
        dst[o++] = d[p[i] >> 4];
        dst[o++] = d[p[i] & 15];
    }
    dst[o] = 0;
}
static size_t v_unhex(uint8_t *dst, size_t cap, const char *hex) {
    size_t n = 0;
    while (hex[0] && hex[1] && n < cap) {
        unsigned v;
        if (sscanf(hex, "%2x", &v) != 1) break;
        dst[n++] = (uint8_t)v;
        hex += 2;
    }
    return n;
}
/* printable rendering of bytes for messages */
static const char *v_show(const void *src, size_t n) {
    static char b[4][700];
    static int k;
    char *o = b[k = (k + 1) & 3];
    const uint8_t *p = (const uint8_t *)src;
    size_t j = 0;
    for (size_t i = 0; i < n && j + 6 < 700; ++i) {
        if (p[i] >= 0x21 && p[i] < 0x7f && p[i] != '\\')
            o[j++] = (char)p[i];
        else
            j += (size_t)sprintf(o + j, "\\x%02x", p[i]);
    }
    o[j] = 0;
    return o;
}

/* ------------------------------------------------------------------ ASan hook ---------------- */
#if defined(__SANITIZE_ADDRESS__)
void __asan_set_error_report_callback(void (*cb)(const char *));
static void v_asan_cb(const char *report) {
    if (!v_sh) return;
    struct v_slot *s = &v_sh->slot[v_worker];
    strncpy(s->report, report, V_MSG - 1);
    s->report[V_MSG - 1] = 0;
}
const char *__asan_default_options(void) {
    return "detect_leaks=0:symbolize=0:allocator_may_return_null=1:abort_on_error=0:exitcode=99:"
           "handle_abort=1:detect_stack_use_after_return=0:max_malloc_fill_size=4096:malloc_fill_byte=165:print_legend=0:"
           "allow_user_poisoning=1";
}
#endif

/* extract "kind" and frame pcs from an ASan report */
static void v_parse_report(const char *rep, char *kind, size_t kcap, char *frames, size_t fcap) {
    kind[0] = 0;
    frames[0] = 0;
    const char *e = strstr(rep, "ERROR: AddressSanitizer: ");
    if (e) {
        e += strlen("ERROR: AddressSanitizer: ");
        size_t i = 0;
        while (e[i] && e[i] != ' ' && e[i] != '\n' && i + 1 < kcap) {
            kind[i] = e[i];
            ++i;
        }
        kind[i] = 0;
    }
    const char *p = rep;
    int nf = 0;
    size_t o = 0;
    while ((p = strstr(p, "\n    #")) != NULL && nf < 8) {
        const char *x = strstr(p, "0x");
        if (!x) break;
        if (strncmp(p, "\n    #0 ", 8) == 0 && nf > 0) break; /* second stack (allocation site) */
        size_t i = 0;
        if (o && o + 1 < fcap) frames[o++] = ',';
        while (x[i] && x[i] != ' ' && x[i] != '\n' && o + 1 < fcap) frames[o++] = x[i++];
        frames[o] = 0;
        ++nf;
        p = x;
    }
    if (!frames[0]) strcpy(frames, "-");
}

/* ------------------------------------------------------------------ init -------------------- */
static void v_init(int argc, char **argv) {
    /* deterministic process image: disable ASLR by re-exec (once) */
    if (!getenv("V_NOASLR")) {
        setenv("V_NOASLR", "1", 1);
        setenv("TZ", getenv("V_TZ") ? getenv("V_TZ") : "UTC", 1); /* V_TZ: a harness entry may ask for another (POSIX-string) zone */
        setenv("LC_ALL", "C", 1);
        int pers = personality(0xffffffff);
        if (pers != -1 && !(pers & ADDR_NO_RANDOMIZE) && personality(pers | ADDR_NO_RANDOMIZE) != -1) {
            execv("/proc/self/exe", argv);
        }
    }
    v_sh = (struct v_shared *)mmap(NULL, sizeof(*v_sh), PROT_READ | PROT_WRITE, MAP_SHARED | MAP_ANONYMOUS, -1, 0);
    if (v_sh == MAP_FAILED) {
        perror("mmap");
        exit(2);
    }
    memset(v_sh, 0, sizeof(*v_sh));
    double deadline = 0;
    for (int i = 1; i < argc; ++i) {
        if (!strcmp(argv[i], "--tier") && i + 1 < argc) v_tier = argv[++i];
        else if (!strcmp(argv[i], "--replay") && i + 1 < argc) v_replay_token = argv[++i];
        else if (!strcmp(argv[i], "--deadline") && i + 1 < argc) deadline = atof(argv[++i]);
        else if (!strcmp(argv[i], "--workers") && i + 1 < argc) v_nworkers = atoi(argv[++i]);
    }
    if (v_nworkers < 1) v_nworkers = 1;
    if (v_nworkers > V_MAX_WORKERS) v_nworkers = V_MAX_WORKERS;
    if (deadline > 0) v_deadline_at = v_now() + deadline;
#if defined(__SANITIZE_ADDRESS__)
    __asan_set_error_report_callback(v_asan_cb);
#endif
    signal(SIGPIPE, SIG_IGN);
}

/* fold worker counters into the parent's slot */
static void v_fold(int w) {
    struct v_slot *s = &v_sh->slot[w], *p = &v_sh->slot[V_MAX_WORKERS];
    for (int i = 0; i < V_MAX_COUNTERS; ++i) {
        if (v_counter_name[i] && strncmp(v_counter_name[i], "max_", 4) == 0) {
            if (s->counters[i] > p->counters[i]) p->counters[i] = s->counters[i];
        } else {
            p->counters[i] += s->counters[i];
        }
        s->counters[i] = 0;
    }
}

/* folded (parent-slot) value of a counter */
static uint64_t v_counter_value(const char *name) { return v_sh->slot[V_MAX_WORKERS].counters[v_counter(name)]; }

static void v_finish(void) {
    struct v_slot *p = &v_sh->slot[V_MAX_WORKERS];
    for (int i = 0; i < v_ncounters; ++i) v_out("STAT %s %" PRIu64, v_counter_name[i], p->counters[i]);
    v_out("EXHAUSTIVE %d", v_exhaustive);
}

/* ------------------------------------------------------------------ vpool ------------------- */
typedef void (*v_item_fn)(uint64_t index, void *ctx);

struct v_pool_opts {
    int item_timeout_s;   /* watchdog per item (default 10) */
    const char *crash_sig_prefix; /* e.g. harness name */
    int counters_prereg;  /* unused */
};

static void v_alarm_handler(int sig) {
    (void)sig;
    _exit(98);
}

/* Watchdog without two syscalls per item: a 1 Hz interval timer; the handler kills the worker when the
 * same item has been "current" for timeout_s consecutive ticks. */
static volatile uint64_t v_wd_last_item;
static volatile int v_wd_same_ticks, v_wd_limit;
static void v_watchdog_tick(int sig) {
    (void)sig;
    struct v_slot *s = &v_sh->slot[v_worker];
    if (!s->in_item) {
        v_wd_same_ticks = 0;
        return;
    }
    if (s->cur == v_wd_last_item) {
        if (++v_wd_same_ticks >= v_wd_limit) _exit(98);
    } else {
        v_wd_last_item = s->cur;
        v_wd_same_ticks = 0;
    }
}
static void v_watchdog_start(int timeout_s) {
    v_wd_limit = timeout_s + 1;
    v_wd_same_ticks = 0;
    v_wd_last_item = UINT64_MAX;
    struct sigaction sa;
    memset(&sa, 0, sizeof(sa));
    sa.sa_handler = v_watchdog_tick;
    sa.sa_flags = SA_RESTART;
    sigaction(SIGALRM, &sa, NULL);
    struct itimerval it = {{1, 0}, {1, 0}};
    setitimer(ITIMER_REAL, &it, NULL);
}

static void v_worker_loop(int w, int nw, uint64_t start, uint64_t total, v_item_fn fn, void *ctx, int timeout_s) {
    v_worker = w;
    struct v_slot *s = &v_sh->slot[w];
    v_watchdog_start(timeout_s);
    uint64_t cnt = 0;
    for (uint64_t i = start; i < total; i += (uint64_t)nw) {
        if ((cnt++ & 0xff) == 0 && v_past_deadline()) {
            s->next = i;
            _exit(97);
        }
        s->cur = i;
        s->next = i + (uint64_t)nw;
        s->crumb[0] = 0;
        s->report[0] = 0;
        s->in_item = 1;
        fn(i, ctx);
        s->in_item = 0;
    }
    s->done = 1;
    _exit(0);
}

/* Describe why a worker died; returns 1 if it is a violation worth reporting. */
static void v_report_death(const char *prefix, int w, int status, bool hang_confirmed) {
    struct v_slot *s = &v_sh->slot[w];
    char kind[64] = "", frames[400] = "-", sig[200];
    if (s->report[0]) v_parse_report(s->report, kind, sizeof(kind), frames, sizeof(frames));
    if (hang_confirmed)
        snprintf(sig, sizeof(sig), "%s/hang", prefix);
    else if (kind[0])
        snprintf(sig, sizeof(sig), "%s/asan:%s", prefix, kind);
    else if (WIFSIGNALED(status))
        snprintf(sig, sizeof(sig), "%s/signal:%d", prefix, WTERMSIG(status));
    else
        snprintf(sig, sizeof(sig), "%s/exit:%d", prefix, WEXITSTATUS(status));
    uint64_t n = __sync_fetch_and_add(&v_sh->viol_count, 1);
    v_sh->slot[V_MAX_WORKERS].counters[v_counter("violations_raw")] += 1;
    char key[300];
    snprintf(key, sizeof(key), "%s@%.40s", sig, frames); /* limiter key includes the faulting pc */
    (void)n;
    if (v_sig_admit(key)) {
        char first[300];
        const char *r = s->report[0] ? strstr(s->report, "ERROR:") : NULL;
        snprintf(first, sizeof(first), "%.250s", r ? r : "(no sanitizer report)");
        v_out("VIOL sig=%s replay=%s frames=%s :: item %" PRIu64 " died: %s", sig,
              s->crumb[0] ? s->crumb : "-", frames, (uint64_t)s->cur, first);
    }
}

static void v_pool_run(const char *prefix, uint64_t total, v_item_fn fn, void *ctx, int timeout_s) {
    if (timeout_s <= 0) timeout_s = 10;
    (void)v_counter("violations_raw");
    int nw = v_nworkers;
    /* small index spaces do not deserve 16 forks */
    if ((uint64_t)nw > total / 4 + 1) nw = (int)(total / 4 + 1);
    pid_t pid[V_MAX_WORKERS];
    fflush(stdout);
    for (int w = 0; w < nw; ++w) {
        memset((void *)&v_sh->slot[w], 0, sizeof(struct v_slot));
        pid[w] = fork();
        if (pid[w] == 0) v_worker_loop(w, nw, (uint64_t)w, total, fn, ctx, timeout_s);
    }
    int live = nw, hangs = 0;
    while (live > 0) {
        int status = 0;
        pid_t p = wait(&status);
        if (p < 0) {
            if (errno == EINTR) continue;
            break;
        }
        int w = -1;
        for (int i = 0; i < nw; ++i)
            if (pid[i] == p) w = i;
        if (w < 0) continue;
        struct v_slot *s = &v_sh->slot[w];
        if (WIFEXITED(status) && WEXITSTATUS(status) == 0 && s->done) {
            v_fold(w);
            pid[w] = -1;
            --live;
            continue;
        }
        if (WIFEXITED(status) && WEXITSTATUS(status) == 97) { /* deadline */
            v_exhaustive = 0;
            v_fold(w);
            pid[w] = -1;
            --live;
            continue;
        }
        uint64_t resume = s->next;
        if (WIFEXITED(status) && WEXITSTATUS(status) == 98) {
            /* watchdog: re-run that single item alone with a 20x limit (at most two minutes) before calling it a hang.
             * Once one hang of this run has been confirmed that way the check has failed anyway: later expirations are
             * reported as they are, and after three the rest of this index space is abandoned (reported as not
             * exhaustive) - a library that deadlocks on every item must not keep the check busy for hours */
            if (hangs == 0) {
                uint64_t item = s->cur;
                pid_t q = fork();
                if (q == 0) {
                    v_worker = w;
                    signal(SIGALRM, v_alarm_handler);
                    alarm((unsigned)(timeout_s * 20 > 120 ? 120 : timeout_s * 20));
                    s->in_item = 1;
                    fn(item, ctx);
                    _exit(0);
                }
                int st2 = 0;
                while (waitpid(q, &st2, 0) < 0 && errno == EINTR) {
                }
                if (WIFEXITED(st2) && WEXITSTATUS(st2) == 0) {
                    /* slow, not hung */
                } else {
                    v_report_death(prefix, w, st2, WIFEXITED(st2) && WEXITSTATUS(st2) == 98);
                    if (WIFEXITED(st2) && WEXITSTATUS(st2) == 98) ++hangs;
                }
            } else {
                v_report_death(prefix, w, status, true);
                ++hangs;
            }
            if (hangs >= 3) {
                v_out("INFO %s: %d items hung, the rest of this index space is abandoned", prefix, hangs);
                v_exhaustive = 0;
                v_fold(w);
                pid[w] = -1;
                --live;
                for (int i = 0; i < nw; ++i)
                    if (pid[i] > 0) kill(pid[i], SIGKILL);
                for (int i = 0; i < nw; ++i)
                    if (pid[i] > 0) {
                        int st3;
                        while (waitpid(pid[i], &st3, 0) < 0 && errno == EINTR) {
                        }
                        v_fold(i);
                        pid[i] = -1;
                        --live;
                    }
                break;
            }
        } else {
            v_report_death(prefix, w, status, false);
        }
        v_fold(w);
        if (resume < total && !v_past_deadline()) {
            s->done = 0;
            pid[w] = fork();
            if (pid[w] == 0) v_worker_loop(w, nw, resume, total, fn, ctx, timeout_s);
        } else {
            if (resume < total) v_exhaustive = 0;
            pid[w] = -1;
            --live;
        }
    }
    v_worker = V_MAX_WORKERS;
}

/* run one item in a forked child (used by --replay so a crash is reported, not fatal) */
static int v_run_isolated(const char *prefix, v_item_fn fn, uint64_t index, void *ctx, int timeout_s) {
    fflush(stdout);
    memset((void *)&v_sh->slot[0], 0, sizeof(struct v_slot));
    (void)v_counter("violations_raw");
    pid_t p = fork();
    if (p == 0) {
        v_worker = 0;
        signal(SIGALRM, v_alarm_handler);
        alarm((unsigned)(timeout_s > 0 ? timeout_s : 60));
        v_sh->slot[0].cur = index;
        v_sh->slot[0].in_item = 1;
        fn(index, ctx);
        v_sh->slot[0].done = 1;
        _exit(0);
    }
    int st = 0;
    waitpid(p, &st, 0);
    if (!(WIFEXITED(st) && WEXITSTATUS(st) == 0)) {
        v_report_death(prefix, 0, st, WIFEXITED(st) && WEXITSTATUS(st) == 98);
        v_fold(0);
        return 1;
    }
    v_fold(0);
    return 0;
}

#endif /* VCOMMON_H */
