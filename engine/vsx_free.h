/*
 * vsx_free.h — the FREE-RUNNING twin of vsx.h (DESIGN §4.5).
 *
 * The same scenario bodies are compiled with -DVSX_FREE against the `tsan` library variant WITHOUT link-time
 * wrapping and run a fixed number of times on real threads with the OS scheduler.  This pass is not exploration
 * and decides no property: it exists because a cooperative scheduler's hand-offs are happens-before edges that
 * blind a race detector, so the proviso of VSX ("no unsynchronised access between schedule points") has to be
 * checked in a separate free-running ThreadSanitizer run.  Harness oracles are disabled here (VS_CHECK is a no-op);
 * only ThreadSanitizer reports whose accessing frames lie in the repository's sources are counted
 * (STAT tsan_library_race_reports) and surfaced as INFO ASSUMPTION-BROKEN lines.
 */
#ifndef VSX_FREE_H
#define VSX_FREE_H
#include "vcommon.h"
#include <fcntl.h>
#include <pthread.h>
#include <sched.h>

struct vsx_scenario {
    const char *name;
    void (*run)(void);
    int bound_quick, bound_thorough;
    int horizon;
    int spurious;
    int no_timeouts;
    uint64_t max_exec;
    uint64_t (*digest)(void);
};

static void vs_fail(const char *clause, const char *fmt, ...) {
    (void)clause;
    (void)fmt;
}
#define VS_CHECK(cond, clause, ...) ((void)0)
static void vs_outcome(const char *fmt, ...) { (void)fmt; }
static void vs_harness_error(const char *fmt, ...) {
    va_list ap;
    va_start(ap, fmt);
    vfprintf(stderr, fmt, ap);
    va_end(ap);
    fprintf(stderr, "\n");
    _exit(3);
}
static void vs_user_yield(void) { sched_yield(); }
static int vs_threads_unfinished(void) { return 0; }
static int vs_threads_created(void) { return 0; }
static int vs_thread_was_joined(int t) {
    (void)t;
    return 1;
}
static int vs_current_tid(void) { return 0; }
static int vs_seq_now(void) { return 0; }
static uint64_t vs_spin_clock_step_ns; /* no virtual clock in the free-running twin */
static int vs_refuse_creates;          /* no injection in the free-running twin: scenarios that need it skip themselves */
static int vs_last_lock_seq(int tid) {
    (void)tid;
    return 0;
}
static uint64_t vs_now_ns(void) {
    struct timespec ts;
    clock_gettime(CLOCK_MONOTONIC, &ts);
    return (uint64_t)ts.tv_sec * 1000000000ull + (uint64_t)ts.tv_nsec;
}

struct esx_set_lite {
    uint64_t n;
};
static struct esx_set_lite vsx_states, vsx_outcomes;

#ifndef VSX_FREE_RUNS
#    define VSX_FREE_RUNS 25
#endif

/* count reports in a TSan log whose first frame of either access is in the repository's sources */
static void vsx_free_scan(const char *path, const char *scenario, uint64_t *all, uint64_t *lib) {
    FILE *f = fopen(path, "r");
    if (!f) return;
    char line[1024];
    int in_report = 0, want_frame0 = 0, lib_hit = 0, mismatch_seen = 0;
    char first_lib[300] = "";
    while (fgets(line, sizeof(line), f)) {
        if (strncmp(line, "TWIN-MISMATCH", 13) == 0) { /* a twin's own note: a call on thread-private objects gave a result it does not give alone */
            if (!mismatch_seen) {
                mismatch_seen = 1;
                (*lib)++;
                size_t ll = strlen(line);
                if (ll && line[ll - 1] == '\n') line[ll - 1] = 0;
                v_out("INFO ASSUMPTION-BROKEN results depend on what another thread does with objects of its own during %s: %.200s", scenario, line + 14);
            }
            continue;
        }
        if (strstr(line, "WARNING: ThreadSanitizer:")) {
            in_report = strstr(line, "data race") != NULL;
            if (in_report) (*all)++;
            want_frame0 = 0;
            lib_hit = 0;
            continue;
        }
        if (!in_report) continue;
        if (strstr(line, " by thread ") || strstr(line, " by main thread")) {
            /* "Write of size 8 at ... by thread T1:" / "Previous read ... by main thread:" */
            if (strstr(line, "rite of size") || strstr(line, "ead of size")) want_frame0 = 1;
            continue;
        }
        if (want_frame0 && strstr(line, "#0 ")) {
            want_frame0 = 0;
            if ((strstr(line, "/source/") || strstr(line, "/include/aws/")) && !strstr(line, "/verif/")) {
                if (!lib_hit) {
                    (*lib)++;
                    lib_hit = 1;
                    snprintf(first_lib, sizeof(first_lib), "%.280s", line);
                    v_out("INFO ASSUMPTION-BROKEN tsan data race in library code during %s: %s", scenario, first_lib);
                }
            }
        }
        if (strstr(line, "SUMMARY: ThreadSanitizer")) in_report = 0;
    }
    fclose(f);
}

static void vsx_explore(const struct vsx_scenario *sc, int bound) {
    (void)bound;
    char path[300];
    uint64_t all = 0, lib = 0, died = 0;
    int runs_done = 0;
    for (int r = 0; r < VSX_FREE_RUNS; ++r) {
        if (v_past_deadline()) break; /* sampling pass: stopping early costs nothing */
        ++runs_done;
        snprintf(path, sizeof(path), "/verif/build/tmp/tsan-%d-%d.log", (int)getpid(), r);
        fflush(stdout);
        pid_t p = fork();
        if (p == 0) {
            int fd = open(path, O_WRONLY | O_CREAT | O_TRUNC, 0600);
            if (fd >= 0) {
                dup2(fd, 2);
                close(fd);
            }
            alarm(120);
            sc->run();
            _exit(0);
        }
        int st = 0;
        waitpid(p, &st, 0);
        if (!(WIFEXITED(st) && (WEXITSTATUS(st) == 0 || WEXITSTATUS(st) == 66))) died++;
        vsx_free_scan(path, sc->name, &all, &lib);
        unlink(path);
    }
    V_COUNT("tsan_free_runs", runs_done);
    V_COUNT("tsan_race_reports_total", all);
    V_COUNT("tsan_library_race_reports", lib);
    V_COUNT("tsan_runs_died", died);
    v_out("INFO free-running tsan pass %s: runs=%d race_reports=%" PRIu64 " in_library=%" PRIu64 " died=%" PRIu64, sc->name, runs_done, all, lib, died);
}
static int vsx_replay(const struct vsx_scenario *sc, const char *token) {
    (void)sc;
    (void)token;
    return 0;
}
static int vsx_main(const struct vsx_scenario *scs, int n) {
    if (v_replay_token) return 0;
    for (int i = 0; i < n; ++i) {
        int bound = v_thorough() ? scs[i].bound_thorough : scs[i].bound_quick;
        if (bound < 0) continue;
        vsx_explore(&scs[i], bound);
    }
    v_finish();
    return 0; /* never a verdict */
}
#endif
