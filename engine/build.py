#!/usr/bin/env python3
"""Build library variants of /repo's *working tree* into /verif/build/lib-<variant> (DESIGN §4.1).

Usage: build.py <variant> [...]      variants: asan asan-dbg sched tsan plain
Every call runs `cmake --build` (a no-op costs ~0.05 s); configure happens once per variant and again
whenever the set of source / cmake files changes.  Builds hold a per-variant flock.
"""
import fcntl, hashlib, os, subprocess, sys

REPO = os.environ.get("VERIF_REPO", "/repo")
ROOT = os.path.dirname(os.path.dirname(os.path.abspath(__file__)))
# An alternative source tree (scratch worktree with a mutant applied) gets its own build/evidence area so that
# it never disturbs checks of /repo itself:  VERIF_REPO=/tmp/wt ./check C06
ALT = None if os.path.realpath(REPO) == "/repo" else hashlib.sha1(os.path.realpath(REPO).encode()).hexdigest()[:10]
BUILD = os.path.join(ROOT, "build") if ALT is None else os.path.join(ROOT, "build", "alt-" + ALT)

ASAN = "-fsanitize=address -fno-omit-frame-pointer -fno-common"
VARIANTS = {
    # name: (CMAKE_BUILD_TYPE, extra C flags)
    "asan": ("RelWithDebInfo", "-O1 -g " + ASAN),
    "asan-dbg": ("Debug", "-O1 -g " + ASAN),
    "sched": ("RelWithDebInfo", "-O1 -g " + ASAN + " -include " + os.path.join(ROOT, "engine", "vs_hooks.h")),
    "sched-noasan": ("RelWithDebInfo", "-O1 -g -include " + os.path.join(ROOT, "engine", "vs_hooks.h")),
    "tsan": ("RelWithDebInfo", "-O1 -g -fsanitize=thread"),
    "plain": ("RelWithDebInfo", "-O1 -g"),
}


def libdir(variant):
    return os.path.join(BUILD, "lib-" + variant)


def _filelist_hash():
    h = hashlib.sha1()
    for top in ("source", "include", "cmake"):
        for dp, dn, fn in sorted(os.walk(os.path.join(REPO, top))):
            dn.sort()
            for f in sorted(fn):
                h.update(os.path.join(dp, f).encode())
    h.update(open(os.path.join(REPO, "CMakeLists.txt"), "rb").read())
    return h.hexdigest()


def build(variant, quiet=True):
    if variant not in VARIANTS:
        raise SystemExit("unknown variant " + variant)
    btype, cflags = VARIANTS[variant]
    d = libdir(variant)
    os.makedirs(d, exist_ok=True)
    if ALT is not None:  # do not inherit a stale in-source _build or CMakeCache from the scratch tree
        pass
    lock = open(os.path.join(BUILD, ".lock-" + variant), "w")
    fcntl.flock(lock, fcntl.LOCK_EX)
    try:
        stamp = os.path.join(d, ".verif-stamp")
        want = _filelist_hash() + "|" + btype + "|" + cflags
        have = open(stamp).read() if os.path.exists(stamp) else ""
        out = subprocess.DEVNULL if quiet else None
        if have != want or not os.path.exists(os.path.join(d, "build.ninja")):
            cmd = ["cmake", "-G", "Ninja", "-S", REPO, "-B", d, "-DBUILD_TESTING=OFF",
                   "-DBUILD_SHARED_LIBS=OFF", "-DCMAKE_BUILD_TYPE=" + btype,
                   "-DCMAKE_C_COMPILER=gcc", "-DCMAKE_C_FLAGS=" + cflags + " -Wno-error",
                   "-DAWS_WARNINGS_ARE_ERRORS=OFF", "-DPERFORM_HEADER_CHECK=OFF"]
            r = subprocess.run(cmd, stdout=subprocess.PIPE, stderr=subprocess.STDOUT, text=True)
            if r.returncode != 0:
                sys.stderr.write(r.stdout)
                raise SystemExit("BUILD-ERROR: cmake configure failed for " + variant)
            open(stamp, "w").write(want)
        r = subprocess.run(["cmake", "--build", d, "-j", "16"], stdout=subprocess.PIPE,
                           stderr=subprocess.STDOUT, text=True)
        if r.returncode != 0:
            sys.stderr.write(r.stdout[-6000:])
            raise SystemExit("BUILD-ERROR: library build failed for " + variant)
    finally:
        fcntl.flock(lock, fcntl.LOCK_UN)
        lock.close()
    return d


def lib_flags(variant):
    """(cflags, ldflags) needed to compile/link a harness against a variant."""
    d = libdir(variant)
    btype, cflags = VARIANTS[variant]
    inc = ["-I" + os.path.join(REPO, "include"), "-I" + os.path.join(d, "generated", "include")]
    cf = cflags.split() + inc
    if btype == "Debug":
        cf.append("-DDEBUG_BUILD")
    else:
        cf.append("-DNDEBUG")
    ld = [os.path.join(d, "libaws-c-common.a"), "-lpthread", "-ldl", "-lm", "-lrt"]
    return cf, ld


if __name__ == "__main__":
    for v in sys.argv[1:]:
        print(build(v, quiet=False))
