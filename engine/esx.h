/*
 * esx.h — ESX: explicit-state breadth-first exploration of the REAL implementation (DESIGN §4.2).
 *
 * A state is the shortest operation history that reaches it: expanding state s by op o means
 * reset(); replay history(s); apply(o); canon().  States are de-duplicated on a 128-bit hash of the
 * canonical bytes.  Each BFS level is expanded by forked workers (vpool: a crash / ASan report /
 * hang in the library becomes a VIOL naming the exact history).  Canon-on-replay: the canonical
 * hash after replaying a stored history must equal the stored hash, else the harness is
 * nondeterministic and the run aborts with exit 2 (never a property verdict).
 */
#ifndef ESX_H
#define ESX_H
#include "vcommon.h"
#include <fcntl.h>

#define ESX_MAX_DEPTH 48
#define ESX_CANON_CAP (1 << 16)

struct esx_model {
    const char *name;                 /* model/config name: first part of the replay token and of signatures */
    int nops;
    void (*reset)(void);              /* fresh object(s) + fresh reference model */
    bool (*enabled)(int op);          /* documented preconditions only */
    void (*apply)(int op);            /* call the real API, step the reference, compare; report through esx_fail() */
    size_t (*canon)(uint8_t *buf, size_t cap);
    void (*opname)(int op, char *buf, size_t cap);
    void (*teardown)(void);           /* optional: called after each expansion (free objects; may check balances via esx_fail) */
    int max_depth;
    uint64_t max_states;              /* 0 = 4e6 */
};

struct esx_rec {
    uint64_t h1, h2;
    uint32_t parent;
    uint16_t op;
    uint16_t pad;
};

/* ---- violation reporting from inside apply/teardown ------------------------------------------ */
static int esx_failed;
static int esx_in_replay; /* 1 while the engine replays a stored prefix, 0 while the new transition is applied */
static const struct esx_model *esx_cur;
static char esx_token[900];

static void esx_fail(const char *clause, const char *fmt, ...) {
    char msg[2000], sig[300];
    va_list ap;
    va_start(ap, fmt);
    vsnprintf(msg, sizeof(msg), fmt, ap);
    va_end(ap);
    snprintf(sig, sizeof(sig), "%s/%s", esx_cur ? esx_cur->name : "?", clause);
    if (!esx_failed) v_viol(sig, "%s", msg);
    esx_failed = 1;
}
#define ESX_CHECK(cond, clause, ...)                                                                             \
    do {                                                                                                         \
        if (!(cond)) esx_fail(clause, __VA_ARGS__);                                                              \
    } while (0)

/* ---- hashing ---------------------------------------------------------------------------------- */
static void esx_hash(const uint8_t *p, size_t n, uint64_t *h1, uint64_t *h2) {
    uint64_t a = 0xcbf29ce484222325ull, b = 0x9e3779b97f4a7c15ull ^ (n * 0xff51afd7ed558ccdull);
    for (size_t i = 0; i < n; ++i) {
        a = (a ^ p[i]) * 0x100000001b3ull;
        b = (b + p[i] + 0x632be59bd9b4e019ull) * 0xd6e8feb86659fd93ull;
        b ^= b >> 29;
    }
    b ^= b >> 32;
    *h1 = a ? a : 1;
    *h2 = b;
}

/* ---- visited set (parent-owned; workers see the snapshot taken at fork) ------------------------- */
struct esx_set {
    uint64_t *k; /* pairs */
    uint64_t cap, n;
};
static void esx_set_init(struct esx_set *s, uint64_t cap) {
    s->cap = cap;
    s->n = 0;
    s->k = (uint64_t *)calloc(cap * 2, sizeof(uint64_t));
}
static bool esx_set_has(const struct esx_set *s, uint64_t h1, uint64_t h2) {
    uint64_t i = (h1 ^ (h2 * 0x9e3779b97f4a7c15ull)) & (s->cap - 1);
    while (s->k[2 * i]) {
        if (s->k[2 * i] == h1 && s->k[2 * i + 1] == h2) return true;
        i = (i + 1) & (s->cap - 1);
    }
    return false;
}
static void esx_set_put_raw(struct esx_set *s, uint64_t h1, uint64_t h2) {
    uint64_t i = (h1 ^ (h2 * 0x9e3779b97f4a7c15ull)) & (s->cap - 1);
    while (s->k[2 * i]) i = (i + 1) & (s->cap - 1);
    s->k[2 * i] = h1;
    s->k[2 * i + 1] = h2;
    s->n++;
}
static bool esx_set_add(struct esx_set *s, uint64_t h1, uint64_t h2) {
    if (esx_set_has(s, h1, h2)) return false;
    if ((s->n + 1) * 2 > s->cap) {
        struct esx_set t;
        esx_set_init(&t, s->cap * 2);
        for (uint64_t i = 0; i < s->cap; ++i)
            if (s->k[2 * i]) esx_set_put_raw(&t, s->k[2 * i], s->k[2 * i + 1]);
        free(s->k);
        *s = t;
    }
    esx_set_put_raw(s, h1, h2);
    return true;
}

/* ---- exploration state ------------------------------------------------------------------------- */
struct esx_run_state {
    const struct esx_model *m;
    struct esx_set seen;
    uint32_t *parent;
    uint16_t *op;
    uint64_t *hash; /* pairs */
    uint64_t nstates, cap;
    uint64_t lo, hi; /* frontier */
    int depth;
    int fd[V_MAX_WORKERS];
};
static struct esx_run_state esx_rs;

static int esx_history(uint64_t s, uint16_t *out) {
    int n = 0;
    uint16_t tmp[ESX_MAX_DEPTH + 2];
    while (s != 0 && n < ESX_MAX_DEPTH + 1) {
        tmp[n++] = esx_rs.op[s];
        s = esx_rs.parent[s];
    }
    for (int i = 0; i < n; ++i) out[i] = tmp[n - 1 - i];
    return n;
}

static size_t esx_token_prefix_len;
static int esx_token_prefix_n;
static void esx_make_token(const struct esx_model *m, const uint16_t *h, int n, int extra) {
    size_t o = (size_t)snprintf(esx_token, sizeof(esx_token), "%s:", m->name);
    for (int i = 0; i < n && o + 8 < sizeof(esx_token); ++i) o += (size_t)snprintf(esx_token + o, sizeof(esx_token) - o, "%s%d", i ? "." : "", h[i]);
    esx_token_prefix_len = o;
    esx_token_prefix_n = n;
    if (extra >= 0 && o + 8 < sizeof(esx_token)) snprintf(esx_token + o, sizeof(esx_token) - o, "%s%d", n ? "." : "", extra);
    v_crumb("%s", esx_token);
}
/* cheap per-operation update: the prefix part of the token is already in place */
static void esx_token_set_last(int extra) {
    size_t o = esx_token_prefix_len;
    if (extra >= 0 && o + 8 < sizeof(esx_token))
        snprintf(esx_token + o, sizeof(esx_token) - o, "%s%d", esx_token_prefix_n ? "." : "", extra);
    else
        esx_token[o] = 0;
    char *c = v_sh->slot[v_worker].crumb;
    size_t l = strlen(esx_token);
    if (l >= sizeof(v_sh->slot[v_worker].crumb)) l = sizeof(v_sh->slot[v_worker].crumb) - 1;
    memcpy(c, esx_token, l);
    c[l] = 0;
}

static void esx_describe(const struct esx_model *m, const uint16_t *h, int n, char *buf, size_t cap) {
    size_t o = 0;
    buf[0] = 0;
    for (int i = 0; i < n && o + 40 < cap; ++i) {
        char nm[96];
        if (m->opname)
            m->opname(h[i], nm, sizeof(nm));
        else
            snprintf(nm, sizeof(nm), "op%d", h[i]);
        o += (size_t)snprintf(buf + o, cap - o, "%s%s", i ? "; " : "", nm);
    }
}

static uint8_t esx_canon_buf[ESX_CANON_CAP];

/* expand one frontier state (runs in a worker) */
static void esx_expand_item(uint64_t idx, void *ctx) {
    (void)ctx;
    const struct esx_model *m = esx_rs.m;
    uint64_t s = esx_rs.lo + idx;
    uint16_t h[ESX_MAX_DEPTH + 2];
    int n = esx_history(s, h);
    esx_cur = m;
    bool checked_canon = false;
    static uint8_t en[65536]; /* enabled set of this state, computed once after the first replay (enabled() is pure) */
    bool have_en = false;
    esx_make_token(m, h, n, -1);
    for (int o = 0; o < m->nops; ++o) {
        if (have_en && !en[o]) continue;
        esx_failed = 0;
        esx_token_set_last(-1);
        m->reset();
        bool ok = true;
        esx_in_replay = 1;
        for (int i = 0; i < n; ++i) {
            if (!m->enabled(h[i])) {
                fprintf(stderr, "ESX: replay divergence (op %d of %s not enabled)\n", i, esx_token);
                _exit(2);
            }
            m->apply(h[i]);
            if (esx_failed) {
                fprintf(stderr, "ESX: replay divergence (violation while replaying prefix %s)\n", esx_token);
                _exit(2);
            }
        }
        esx_in_replay = 0;
        if (!checked_canon) {
            size_t cn = m->canon(esx_canon_buf, sizeof(esx_canon_buf));
            uint64_t a, b;
            esx_hash(esx_canon_buf, cn, &a, &b);
            if (a != esx_rs.hash[2 * s] || b != esx_rs.hash[2 * s + 1]) {
                fprintf(stderr, "ESX: canon-on-replay mismatch for %s (harness nondeterminism)\n", esx_token);
                _exit(2);
            }
            checked_canon = true;
        }
        if (!have_en) {
            for (int k = 0; k < m->nops && k < 65536; ++k) en[k] = m->enabled(k) ? 1 : 0;
            have_en = true;
        }
        if (en[o]) {
            esx_token_set_last(o);
            V_COUNT("transitions", 1);
            m->apply(o);
            if (!esx_failed) {
                size_t cn = m->canon(esx_canon_buf, sizeof(esx_canon_buf));
                if (cn > sizeof(esx_canon_buf)) {
                    fprintf(stderr, "ESX: canon overflow\n");
                    _exit(2);
                }
                uint64_t a, b;
                esx_hash(esx_canon_buf, cn, &a, &b);
                if (!esx_set_has(&esx_rs.seen, a, b)) {
                    struct esx_rec r = {a, b, (uint32_t)s, (uint16_t)o, 0};
                    if (write(esx_rs.fd[v_worker], &r, sizeof(r)) != (ssize_t)sizeof(r)) _exit(2);
                }
            } else {
                V_COUNT("violating_transitions", 1);
            }
        } else {
            ok = false;
        }
        (void)ok;
        if (m->teardown) m->teardown();
    }
}

static int esx_rec_cmp(const void *x, const void *y) {
    const struct esx_rec *a = (const struct esx_rec *)x, *b = (const struct esx_rec *)y;
    if (a->parent != b->parent) return a->parent < b->parent ? -1 : 1;
    if (a->op != b->op) return a->op < b->op ? -1 : 1;
    return 0;
}

static void esx_push_state(uint64_t h1, uint64_t h2, uint32_t parent, uint16_t op) {
    struct esx_run_state *r = &esx_rs;
    if (r->nstates == r->cap) {
        r->cap = r->cap ? r->cap * 2 : 4096;
        r->parent = (uint32_t *)realloc(r->parent, r->cap * sizeof(uint32_t));
        r->op = (uint16_t *)realloc(r->op, r->cap * sizeof(uint16_t));
        r->hash = (uint64_t *)realloc(r->hash, r->cap * 2 * sizeof(uint64_t));
    }
    r->parent[r->nstates] = parent;
    r->op[r->nstates] = op;
    r->hash[2 * r->nstates] = h1;
    r->hash[2 * r->nstates + 1] = h2;
    r->nstates++;
}

static void esx_root_probe(uint64_t idx, void *ctx) {
    (void)idx;
    const struct esx_model *m = (const struct esx_model *)ctx;
    esx_cur = m;
    esx_failed = 0;
    uint16_t none[1];
    esx_make_token(m, none, 0, -1);
    m->reset();
    (void)m->canon(esx_canon_buf, sizeof(esx_canon_buf));
    if (m->teardown) m->teardown();
}

/* Explore model m. Returns number of states. */
static uint64_t esx_run(const struct esx_model *m) {
    struct esx_run_state *r = &esx_rs;
    memset(r, 0, sizeof(*r));
    r->m = m;
    esx_cur = m;
    esx_set_init(&r->seen, 1 << 16);
    uint64_t max_states = m->max_states ? m->max_states : 4000000ull;
    int max_depth = m->max_depth > 0 && m->max_depth <= ESX_MAX_DEPTH ? m->max_depth : ESX_MAX_DEPTH;
    char path[256];
    for (int w = 0; w < v_nworkers; ++w) {
        snprintf(path, sizeof(path), "/verif/build/tmp/esx-%d-%d.bin", (int)getpid(), w);
        r->fd[w] = open(path, O_RDWR | O_CREAT | O_TRUNC | O_APPEND, 0600);
        if (r->fd[w] < 0) {
            perror(path);
            exit(2);
        }
        unlink(path);
    }
    /* initial state, evaluated in an isolated child first so that a crash or a hang in reset() / teardown() (library code
     * runs there too: constructors, destructors, idle checks) is reported as a violation of the empty history instead of
     * taking the exploring process down */
    uint64_t esx_viol_before_root = v_counter_value("violations_raw");
    if (v_run_isolated(m->name, esx_root_probe, 0, (void *)m, 20) || v_counter_value("violations_raw") > esx_viol_before_root) {
        v_exhaustive = 0;
        v_out("INFO model %s: the initial state already fails, nothing explored", m->name);
        for (int w = 0; w < v_nworkers; ++w) close(r->fd[w]);
        free(r->seen.k);
        memset(r, 0, sizeof(*r));
        return 0;
    }
    {
        esx_failed = 0;
        uint16_t none[1];
        esx_make_token(m, none, 0, -1);
        m->reset();
        size_t cn = m->canon(esx_canon_buf, sizeof(esx_canon_buf));
        uint64_t a, b;
        esx_hash(esx_canon_buf, cn, &a, &b);
        if (m->teardown) m->teardown();
        esx_set_add(&r->seen, a, b);
        esx_push_state(a, b, 0, 0);
    }
    r->lo = 0;
    r->hi = 1;
    bool fixpoint = false, capped = false;
    int depth_done = 0;
    for (r->depth = 0; r->depth < max_depth; ++r->depth) {
        if (r->lo == r->hi) {
            fixpoint = true;
            break;
        }
        if (v_past_deadline()) {
            capped = true;
            break;
        }
        for (int w = 0; w < v_nworkers; ++w)
            if (ftruncate(r->fd[w], 0) != 0) exit(2);
        int was_exh = v_exhaustive;
        v_pool_run(m->name, r->hi - r->lo, esx_expand_item, NULL, 60);
        if (was_exh && !v_exhaustive) {
            capped = true;
        }
        /* merge */
        size_t total = 0;
        for (int w = 0; w < v_nworkers; ++w) total += (size_t)lseek(r->fd[w], 0, SEEK_END);
        struct esx_rec *recs = (struct esx_rec *)malloc(total + sizeof(struct esx_rec));
        size_t off = 0;
        for (int w = 0; w < v_nworkers; ++w) {
            size_t sz = (size_t)lseek(r->fd[w], 0, SEEK_END);
            if (sz && pread(r->fd[w], (char *)recs + off, sz, 0) != (ssize_t)sz) exit(2);
            off += sz;
        }
        size_t nrec = total / sizeof(struct esx_rec);
        qsort(recs, nrec, sizeof(struct esx_rec), esx_rec_cmp);
        uint64_t newlo = r->nstates;
        for (size_t i = 0; i < nrec; ++i) {
            if (esx_set_add(&r->seen, recs[i].h1, recs[i].h2)) esx_push_state(recs[i].h1, recs[i].h2, recs[i].parent, recs[i].op);
        }
        free(recs);
        r->lo = newlo;
        r->hi = r->nstates;
        if (capped) break;
        depth_done = r->depth + 1;
        if (r->nstates > max_states) {
            capped = true;
            break;
        }
    }
    if (!fixpoint && r->lo == r->hi) fixpoint = true;
    if (capped) v_exhaustive = 0;
    v_worker = V_MAX_WORKERS;
    V_COUNT("states", r->nstates);
    V_COUNT("models", 1);
    V_COUNT("fixpoints", fixpoint ? 1 : 0);
    V_MAXSTAT("max_depth_completed", (uint64_t)depth_done);
    {
        /* sample: the history of the last state found */
        uint16_t h[ESX_MAX_DEPTH + 2];
        int n = esx_history(r->nstates - 1, h);
        char d[1200];
        esx_describe(m, h, n, d, sizeof(d));
        v_sample("%s states=%" PRIu64 " depth=%d %s last-state history: [%s]", m->name, r->nstates, depth_done,
                 fixpoint ? "FIXPOINT" : (capped ? "CAPPED" : "depth-bound"), d);
    }
    v_out("INFO model %s states=%" PRIu64 " depth_completed=%d fixpoint=%d capped=%d", m->name, r->nstates, depth_done,
          fixpoint, capped);
    for (int w = 0; w < v_nworkers; ++w) close(r->fd[w]);
    free(r->seen.k);
    free(r->parent);
    free(r->op);
    free(r->hash);
    uint64_t ns = r->nstates;
    memset(r, 0, sizeof(*r));
    return ns;
}

/* ---- cycle amplification: drift over many repetitions of a short pattern ------------------------------------------
 * BFS to depth d decides every history of <= d operations; state that is right after every single operation but drifts
 * over many (a counter, a free list, a growth policy, an index never reset) shows only after tens of operations.  For
 * EVERY sequence c of 1..L operations of the model's alphabet: reset, then apply c `reps` times (an operation that is
 * not enabled at its turn is skipped); apply() compares with the reference after each operation exactly as in the BFS,
 * teardown() checks the balances at the end.  Exhaustive over the patterns; L and reps are the stated bounds.  L is the
 * largest length <= Lmax for which the total number of operations stays within `budget`. */
struct esx_cyc_ctx {
    const struct esx_model *m;
    int L, reps;
};
static void esx_cycle_item(uint64_t idx, void *vctx) {
    struct esx_cyc_ctx *c = (struct esx_cyc_ctx *)vctx;
    const struct esx_model *m = c->m;
    uint64_t x = idx, p = (uint64_t)m->nops;
    int l = 1;
    while (x >= p) {
        x -= p;
        p *= (uint64_t)m->nops;
        ++l;
    }
    int cyc[16];
    for (int i = l - 1; i >= 0; --i) {
        cyc[i] = (int)(x % (uint64_t)m->nops);
        x /= (uint64_t)m->nops;
    }
    esx_cur = m;
    esx_failed = 0;
    esx_in_replay = 0;
    {
        size_t o = (size_t)snprintf(esx_token, sizeof(esx_token), "%s:*%d*", m->name, c->reps);
        for (int i = 0; i < l; ++i) o += (size_t)snprintf(esx_token + o, sizeof(esx_token) - o, "%s%d", i ? "." : "", cyc[i]);
        v_crumb("%s", esx_token);
    }
    m->reset();
    uint64_t executed = 0;
    for (int r = 0; r < c->reps && !esx_failed; ++r) {
        uint64_t before = executed;
        for (int i = 0; i < l && !esx_failed; ++i) {
            if (!m->enabled(cyc[i])) continue;
            m->apply(cyc[i]);
            ++executed;
        }
        if (executed == before) break; /* nothing enabled: enabled() is a function of the state, which did not change */
    }
    V_COUNT("cycle_patterns", 1);
    V_COUNT("cycle_operations", executed);
    V_COUNT("transitions", executed);
    if (!esx_failed && m->teardown) m->teardown();
    if (esx_failed) V_COUNT("violating_transitions", 1);
}
static void esx_cycles(const struct esx_model *m, int Lmax, int reps, uint64_t budget) {
    if (v_sh->viol_count || m->nops <= 0) return;
    if (Lmax > 16) Lmax = 16;
    int L = 0;
    uint64_t total = 0, pw = 1;
    for (int l = 1; l <= Lmax; ++l) {
        pw *= (uint64_t)m->nops;
        if ((total + pw) * (uint64_t)l * (uint64_t)reps > budget && l > 1) break;
        total += pw;
        L = l;
        if (pw > budget) break;
    }
    struct esx_cyc_ctx c = {m, L, reps};
    esx_cur = m;
    char nm[160];
    snprintf(nm, sizeof(nm), "%s", m->name);
    v_pool_run(nm, total, esx_cycle_item, &c, 120);
    v_worker = V_MAX_WORKERS;
    V_MAXSTAT("max_cycle_length", (uint64_t)L);
    V_MAXSTAT("max_cycle_repetitions", (uint64_t)reps);
    v_out("INFO model %s cycles: every pattern of 1..%d operations (%" PRIu64 " patterns) x %d repetitions", m->name, L, total, reps);
}

/* default bounds: patterns of up to 4 operations, 32 repetitions, 3e6 (quick) / 1e7 (thorough) operations per model */
#ifndef ESX_CYCLES
#define ESX_CYCLES(m) esx_cycles((m), 4, 32, v_thorough() ? 10000000ull : 3000000ull)
#endif

/* ---- replay: token "<model>:<op.op.op>" ------------------------------------------------------- */
static bool esx_token_is_for(const char *token, const char *model_name) {
    size_t n = strlen(model_name);
    return strncmp(token, model_name, n) == 0 && token[n] == ':';
}

struct esx_replay_ctx {
    const struct esx_model *m;
    const char *ops;
};
static void esx_replay_item(uint64_t idx, void *vctx) {
    (void)idx;
    struct esx_replay_ctx *c = (struct esx_replay_ctx *)vctx;
    const struct esx_model *m = c->m;
    esx_cur = m;
    esx_failed = 0;
    v_crumb("%s:%s", m->name, c->ops);
    m->reset();
    const char *p = c->ops;
    int step = 0;
    if (*p == '*') { /* cycle token "*<reps>*a.b.c": the pattern repeated, operations not enabled at their turn are skipped */
        int reps = atoi(p + 1), cyc[16], l = 0;
        p = strchr(p + 1, '*');
        p = p ? p + 1 : "";
        while (*p && l < 16) {
            cyc[l++] = atoi(p);
            while (*p && *p != '.') ++p;
            if (*p == '.') ++p;
        }
        for (int r = 0; r < reps && !esx_failed; ++r) {
            for (int i = 0; i < l && !esx_failed; ++i) {
                int o = cyc[i];
                if (o < 0 || o >= m->nops) _exit(2);
                if (!m->enabled(o)) continue;
                char nm[96];
                if (m->opname)
                    m->opname(o, nm, sizeof(nm));
                else
                    snprintf(nm, sizeof(nm), "op%d", o);
                if (r < 3 || r + 2 >= reps) v_out("INFO replay round %d step %d: %s", r, step, nm);
                m->apply(o);
                ++step;
            }
        }
        if (esx_failed) v_out("INFO replay: violation at executed operation %d", step);
        if (!esx_failed && m->teardown) m->teardown();
        v_out("INFO replay finished: %s", esx_failed ? "VIOLATION reproduced" : "no violation");
        return;
    }
    while (*p) {
        int o = atoi(p);
        char nm[96];
        if (m->opname)
            m->opname(o, nm, sizeof(nm));
        else
            snprintf(nm, sizeof(nm), "op%d", o);
        if (o < 0 || o >= m->nops || !m->enabled(o)) {
            v_out("INFO replay step %d: op %d (%s) not enabled — divergence", step, o, nm);
            _exit(2);
        }
        v_out("INFO replay step %d: %s", step, nm);
        m->apply(o);
        if (esx_failed) break;
        while (*p && *p != '.') ++p;
        if (*p == '.') ++p;
        ++step;
    }
    if (!esx_failed && m->teardown) m->teardown();
    v_out("INFO replay finished: %s", esx_failed ? "VIOLATION reproduced" : "no violation");
}
static int esx_replay(const struct esx_model *m, const char *token) {
    struct esx_replay_ctx c = {m, token + strlen(m->name) + 1};
    return v_run_isolated(m->name, esx_replay_item, 0, &c, 120);
}

#endif /* ESX_H */
