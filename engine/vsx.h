/*
 * vsx.h — VSX: controlled scheduler + preemption-bounded exhaustive explorer (DESIGN §4.4).
 *
 * Link-time interposition: harnesses using this header are linked with
 *   -Wl,--wrap=pthread_create,--wrap=pthread_join,... (list in /verif/check, key "wrap": True)
 * against the `sched` library variant (every __atomic_* builtin of atomics_gnu.inl calls
 * vs_atomic_point through the force-included vs_hooks.h).  Threads are real pthreads, exactly one holds
 * the baton; every wrapped operation is a schedule point.  An execution is identified by its sequence
 * of choices; the explorer forks one child per execution and enumerates every alternative at every
 * point whose cumulative cost (preemptions + timer/spurious deviations) stays within the bound.
 */
#ifndef VSX_H
#define VSX_H
#include "vcommon.h"
#include <linux/futex.h>
#include <stddef.h>
#include <pthread.h>
#include <sys/syscall.h>

#define VS_MAX_THREADS 8
#define VS_MAX_OBJS 256
#define VS_MAX_POINTS 8192
#define VS_MAX_PREFIX 2048

enum vs_op {
    VOP_START = 0, VOP_LOCK, VOP_TRYLOCK, VOP_CWAIT, VOP_CWAKE, VOP_SIGNAL, VOP_BROADCAST, VOP_CREATE, VOP_JOIN,
    VOP_ATOMIC, VOP_ONCE, VOP_SLEEP, VOP_YIELD, VOP_EXIT, VOP_TIMEOUT, VOP_SPURIOUS, VOP_FORCED_TIMEOUT, VOP_DATA, VOP_CREATED
};
static const char *vs_op_name[] = {"start", "lock", "trylock", "cond-wait", "cond-wake", "signal", "broadcast", "create", "join",
                                   "atomic", "once", "sleep", "yield", "exit", "TIMEOUT", "SPURIOUS-WAKE", "forced-timeout", "data-choice", "created"};

struct vs_point { /* one decision */
    uint8_t tid;     /* thread that reached the point (running thread) */
    uint8_t op;      /* its pending op */
    uint16_t obj;    /* object id / source line for atomics */
    uint8_t nalts;   /* number of alternatives */
    uint8_t chosen;
    uint8_t thread_alt_cost; /* cost of alternatives 1..nthr-1 (0 = forced switch, 1 = preemption) */
    uint8_t nthr;    /* alternatives [0,nthr) are threads, [nthr,nalts) pseudo-alternatives of cost 1 (timeouts, spurious wake-ups, data) */
    uint8_t alt_tid[12]; /* thread behind each alternative */
    uint8_t alt_kind[12];
    uint64_t digest;
};

struct vs_result {
    volatile int status; /* 0 running, 1 ok, 2 violation, 3 harness error */
    volatile int npoints;
    char sig[160];
    char msg[1200];
    char outcome[400];
    volatile uint32_t horizon_hit;
    struct vs_point pts[VS_MAX_POINTS];
};

/* ------------------------------------------------------------------ scheduler state (child) -- */
struct vs_thread {
    int state; /* 0 unused, 1 ready (has a pending op), 2 finished */
    int op, obj;
    int waiting_cv;
    int signalled, timedout, spurious, has_deadline;
    uint64_t deadline;
    int join_target;
    volatile uint32_t go;
    pthread_t real;
    void *(*fn)(void *);
    void *arg;
    int pc;
    int spin_obj, spin_count, spin_yielded;
    int mutex_for_wake;
    int last_lock_seq; /* index of the schedule point at which this thread was last granted a mutex */
};
struct vs_obj {
    const void *addr;
    int kind; /* 1 mutex 2 cond 3 once */
    int owner; /* mutex: tid or -1; once: 0 none 1 running 2 done (owner in aux) */
    int aux;
    int destroyed;
};

static struct vs_thread vs_th[VS_MAX_THREADS];
static struct vs_obj vs_objs[VS_MAX_OBJS];
static int vs_nobj, vs_nthreads;
static volatile int vs_active;
static __thread int vs_me = -1;
static uint64_t vs_clock_ns = 1700000000ull * 1000000000ull; /* virtual clock, shared by all clock ids */
static uint64_t vs_spin_clock_step_ns; /* opt-in: when only busy-waiting threads can run, each full round of their spinning lets this much
                                          virtual time pass (a busy-wait that polls the clock, e.g. join-all with a timeout) */
static struct vs_result *vs_res;
static const uint8_t *vs_prefix;
static int vs_prefix_len;
static int vs_horizon = 5000;
static int vs_allow_spurious;
static int vs_allow_timeouts = 1;
static uint64_t (*vs_user_digest)(void);
static int vs_last_runner = -1;
static int vs_trace_print;

int __real_pthread_create(pthread_t *, const pthread_attr_t *, void *(*)(void *), void *);
int __real_pthread_join(pthread_t, void **);
int __real_pthread_detach(pthread_t);
int __real_pthread_mutex_init(pthread_mutex_t *, const pthread_mutexattr_t *);
int __real_pthread_mutex_destroy(pthread_mutex_t *);
int __real_pthread_mutex_lock(pthread_mutex_t *);
int __real_pthread_mutex_trylock(pthread_mutex_t *);
int __real_pthread_mutex_unlock(pthread_mutex_t *);
int __real_pthread_cond_init(pthread_cond_t *, const pthread_condattr_t *);
int __real_pthread_cond_destroy(pthread_cond_t *);
int __real_pthread_cond_wait(pthread_cond_t *, pthread_mutex_t *);
int __real_pthread_cond_timedwait(pthread_cond_t *, pthread_mutex_t *, const struct timespec *);
int __real_pthread_cond_signal(pthread_cond_t *);
int __real_pthread_cond_broadcast(pthread_cond_t *);
int __real_pthread_once(pthread_once_t *, void (*)(void));
int __real_clock_gettime(clockid_t, struct timespec *);
int __real_nanosleep(const struct timespec *, struct timespec *);

static void vs_futex_wait(volatile uint32_t *w) {
    while (*w == 0) syscall(SYS_futex, w, FUTEX_WAIT, 0, NULL, NULL, 0);
    *w = 0;
    __sync_synchronize();
}
static void vs_futex_wake(volatile uint32_t *w) {
    __sync_synchronize();
    *w = 1;
    syscall(SYS_futex, w, FUTEX_WAKE, 1, NULL, NULL, 0);
}

static void vs_finish_child(int status) {
    vs_res->status = status;
    __sync_synchronize();
    _exit(status == 3 ? 2 : 0);
}

/* violation from the harness oracle or from the scheduler (deadlock, livelock, misuse) */
static void vs_fail(const char *clause, const char *fmt, ...) {
    if (vs_res->status == 0 && !vs_res->sig[0]) {
        va_list ap;
        va_start(ap, fmt);
        vsnprintf(vs_res->msg, sizeof(vs_res->msg), fmt, ap);
        va_end(ap);
        snprintf(vs_res->sig, sizeof(vs_res->sig), "%s", clause);
    }
}
#define VS_CHECK(cond, clause, ...)                                                                              \
    do {                                                                                                         \
        if (!(cond)) vs_fail(clause, __VA_ARGS__);                                                               \
    } while (0)
static void vs_outcome(const char *fmt, ...) {
    va_list ap;
    va_start(ap, fmt);
    vsnprintf(vs_res->outcome, sizeof(vs_res->outcome), fmt, ap);
    va_end(ap);
}
static void vs_harness_error(const char *fmt, ...) {
    va_list ap;
    va_start(ap, fmt);
    vsnprintf(vs_res->msg, sizeof(vs_res->msg), fmt, ap);
    va_end(ap);
    snprintf(vs_res->sig, sizeof(vs_res->sig), "harness-error");
    fprintf(stderr, "VSX harness error: %s\n", vs_res->msg);
    vs_finish_child(3);
}

static int vs_obj_id(const void *addr, int kind) {
    for (int i = 0; i < vs_nobj; ++i)
        if (vs_objs[i].addr == addr && vs_objs[i].kind == kind && !vs_objs[i].destroyed) return i;
    if (vs_nobj >= VS_MAX_OBJS) vs_harness_error("too many sync objects");
    vs_objs[vs_nobj].addr = addr;
    vs_objs[vs_nobj].kind = kind;
    vs_objs[vs_nobj].owner = kind == 1 ? -1 : 0;
    vs_objs[vs_nobj].aux = 0;
    vs_objs[vs_nobj].destroyed = 0;
    return vs_nobj++;
}

static bool vs_enabled(int t) {
    struct vs_thread *th = &vs_th[t];
    if (th->state != 1) return false;
    switch (th->op) {
        case VOP_LOCK: return vs_objs[th->obj].owner < 0;
        case VOP_CWAKE: return (th->signalled || th->timedout || th->spurious) && vs_objs[th->mutex_for_wake].owner < 0;
        case VOP_JOIN: return vs_th[th->join_target].state == 2;
        case VOP_ONCE: return vs_objs[th->obj].owner != 1;
        default: return true;
    }
}

static uint64_t vs_digest(void) {
    uint64_t h = 0xcbf29ce484222325ull;
#define VS_MIX(x) h = (h ^ (uint64_t)(x)) * 0x100000001b3ull
    for (int t = 0; t < vs_nthreads; ++t) {
        VS_MIX(vs_th[t].state);
        VS_MIX(vs_th[t].op);
        VS_MIX(vs_th[t].obj);
        VS_MIX(vs_th[t].pc);
        VS_MIX(vs_th[t].signalled | vs_th[t].timedout << 1 | vs_th[t].spurious << 2);
    }
    for (int o = 0; o < vs_nobj; ++o) VS_MIX(vs_objs[o].owner + 7);
    VS_MIX(vs_clock_ns);
    if (vs_user_digest) VS_MIX(vs_user_digest());
#undef VS_MIX
    return h;
}

static void vs_describe_threads(char *buf, size_t cap) {
    size_t o = 0;
    for (int t = 0; t < vs_nthreads && o + 60 < cap; ++t) {
        struct vs_thread *th = &vs_th[t];
        if (th->state == 2) o += (size_t)snprintf(buf + o, cap - o, "T%d finished; ", t);
        else if (th->state == 1)
            o += (size_t)snprintf(buf + o, cap - o, "T%d blocked at %s(obj %d)%s; ", t, vs_op_name[th->op], th->obj,
                                  th->op == VOP_CWAKE && !(th->signalled || th->timedout) ? " [waiting, never signalled]" : "");
    }
}

/* The heart: called by the running thread `me` with its pending op already stored. Returns when `me` is
 * scheduled again and its op is enabled. */
static int vs_last_run_point[VS_MAX_THREADS]; /* schedule point at which each thread was last given the processor */
static void vs_schedule(int me) {
    for (;;) {
        if (vs_res->npoints >= vs_horizon || vs_res->npoints >= VS_MAX_POINTS - 1) {
            vs_res->horizon_hit = 1;
            char d[600];
            vs_describe_threads(d, sizeof(d));
            vs_fail("livelock-or-horizon", "execution exceeded %d schedule points: %s", vs_horizon, d);
            vs_finish_child(2);
        }
        int en[VS_MAX_THREADS], nen = 0;
        for (int t = 0; t < vs_nthreads; ++t)
            if (vs_enabled(t) && !vs_th[t].spin_yielded) en[nen++] = t;
        if (nen == 0) {
            bool any_spin = false;
            for (int t = 0; t < vs_nthreads; ++t)
                if (vs_th[t].spin_yielded && vs_enabled(t)) any_spin = true;
            if (any_spin) {
                for (int t = 0; t < vs_nthreads; ++t) vs_th[t].spin_yielded = 0, vs_th[t].spin_count = 0;
                vs_clock_ns += vs_spin_clock_step_ns;
                continue;
            }
        }
        /* pseudo-alternatives */
        int ps_t[VS_MAX_THREADS * 2], ps_k[VS_MAX_THREADS * 2], nps = 0;
        for (int t = 0; t < vs_nthreads; ++t) {
            struct vs_thread *th = &vs_th[t];
            if (th->state == 1 && th->op == VOP_CWAKE && !th->signalled && !th->timedout && !th->spurious) {
                if (th->has_deadline && vs_allow_timeouts) {
                    ps_t[nps] = t;
                    ps_k[nps++] = VOP_TIMEOUT;
                }
                if (vs_allow_spurious) {
                    ps_t[nps] = t;
                    ps_k[nps++] = VOP_SPURIOUS;
                }
            }
        }
        if (nen == 0) {
            /* nobody can run: time passes until the earliest deadline (free, forced) or it is a deadlock */
            int w = -1;
            for (int t = 0; t < vs_nthreads; ++t) {
                struct vs_thread *th = &vs_th[t];
                if (th->state == 1 && th->op == VOP_CWAKE && th->has_deadline && !th->signalled && !th->timedout)
                    if (w < 0 || th->deadline < vs_th[w].deadline) w = t;
            }
            if (w >= 0) {
                if (vs_th[w].deadline > vs_clock_ns) vs_clock_ns = vs_th[w].deadline;
                vs_th[w].timedout = 1;
                struct vs_point *p = &vs_res->pts[vs_res->npoints++];
                memset(p, 0, sizeof(*p));
                p->tid = (uint8_t)w;
                p->op = VOP_FORCED_TIMEOUT;
                p->nalts = 1;
                p->nthr = 1;
                p->alt_tid[0] = (uint8_t)w;
                p->digest = vs_digest();
                if (vs_res->npoints <= vs_prefix_len && vs_prefix[vs_res->npoints - 1] != 0) vs_harness_error("replay divergence at forced timeout");
                continue;
            }
            bool unfinished = false;
            for (int t = 0; t < vs_nthreads; ++t)
                if (vs_th[t].state == 1) unfinished = true;
            if (unfinished) {
                char d[600];
                vs_describe_threads(d, sizeof(d));
                vs_fail("deadlock", "no thread can run: %s", d);
                vs_finish_child(2);
            }
            vs_harness_error("scheduler: nothing to run and nothing unfinished");
        }
        bool me_enabled = false;
        for (int i = 0; i < nen; ++i)
            if (en[i] == me) me_enabled = true;
        /* canonical order: default first (running thread if enabled, else lowest id), then ascending ids, then pseudo.
         * Fairness for busy-waiting: when the running thread has descheduled itself because it is spinning (it could run,
         * nothing blocks it), the default successor is the enabled thread that has not run for the longest time, and
         * picking any other one is a costed deviation like a preemption.  Without this the free alternatives at such
         * points span an infinite tree of unfair schedules in which two spinners hand the processor to each other for
         * ever while the thread they are waiting for is never chosen (three concurrent join-all callers); with it every
         * schedule ends after at most `bound` unfair choices (Musuvathi & Qadeer, Fair Stateless Model Checking) */
        bool me_spun = vs_th[me].state == 1 && vs_th[me].spin_yielded && vs_enabled(me);
        int alts[VS_MAX_THREADS + VS_MAX_THREADS * 2], na = 0;
        int def = me_enabled ? me : en[0];
        if (!me_enabled && me_spun)
            for (int i = 1; i < nen; ++i)
                if (vs_last_run_point[en[i]] < vs_last_run_point[def]) def = en[i];
        alts[na++] = def;
        for (int i = 0; i < nen; ++i)
            if (en[i] != def) alts[na++] = en[i];
        int nthr = na;
        struct vs_point *p = &vs_res->pts[vs_res->npoints];
        memset(p, 0, sizeof(*p));
        p->tid = (uint8_t)me;
        p->op = (uint8_t)vs_th[me].op;
        p->obj = (uint16_t)vs_th[me].obj;
        p->nthr = (uint8_t)nthr;
        p->thread_alt_cost = (me_enabled || me_spun) ? 1 : 0;
        for (int i = 0; i < nthr && i < 12; ++i) {
            p->alt_tid[i] = (uint8_t)alts[i];
            p->alt_kind[i] = (uint8_t)vs_th[alts[i]].op;
        }
        for (int i = 0; i < nps && nthr + i < 12; ++i) {
            p->alt_tid[nthr + i] = (uint8_t)ps_t[i];
            p->alt_kind[nthr + i] = (uint8_t)ps_k[i];
        }
        p->nalts = (uint8_t)(nthr + nps > 12 ? 12 : nthr + nps);
        p->digest = vs_digest();
        int idx = vs_res->npoints;
        int choice = 0;
        if (idx < vs_prefix_len) {
            choice = vs_prefix[idx];
            if (choice >= p->nalts) vs_harness_error("replay divergence: choice %d of %d at point %d", choice, p->nalts, idx);
        }
        p->chosen = (uint8_t)choice;
        vs_res->npoints++;
        if (choice >= nthr) { /* pseudo-alternative: apply and decide again */
            int t = ps_t[choice - nthr];
            if (ps_k[choice - nthr] == VOP_TIMEOUT) {
                if (vs_th[t].deadline > vs_clock_ns) vs_clock_ns = vs_th[t].deadline;
                vs_th[t].timedout = 1;
            } else {
                vs_th[t].spurious = 1;
            }
            continue;
        }
        int next = alts[choice];
        vs_last_run_point[next] = vs_res->npoints;
        if (next != vs_last_runner) {
            for (int t = 0; t < vs_nthreads; ++t)
                if (t != next) vs_th[t].spin_yielded = 0, vs_th[t].spin_count = 0;
        }
        vs_last_runner = next;
        if (next == me) return;
        vs_futex_wake(&vs_th[next].go);
        if (vs_th[me].state == 2) return; /* exiting thread does not wait */
        vs_futex_wait(&vs_th[me].go);
        return;
    }
}

/* reach a schedule point with pending operation (op,obj); returns once this thread may perform it */
static void vs_yield(int op, int obj) {
    int me = vs_me;
    struct vs_thread *th = &vs_th[me];
    th->op = op;
    th->obj = obj;
    /* waiting made visible: an explicit yield (harness polling loop) deschedules the thread until some other thread
     * has taken a step; >=3 consecutive lock points on the same object (or >=12 identical atomic points) with nobody
     * else running in between are treated the same way (aws_thread_join_all_managed's documented spin-wait) */
    if (op == VOP_YIELD) {
        th->spin_yielded = 1;
    } else if (op == VOP_LOCK || op == VOP_TRYLOCK || op == VOP_ATOMIC) {
        if (th->spin_obj == obj * 32 + op) {
            if (++th->spin_count >= 3 && (op != VOP_ATOMIC || th->spin_count >= 12)) th->spin_yielded = 1;
        } else {
            th->spin_obj = obj * 32 + op;
            th->spin_count = 1;
        }
    } else {
        th->spin_obj = -1;
        th->spin_count = 0;
    }
    vs_schedule(me);
    th->pc++;
}

/* ------------------------------------------------------------------ wrappers ----------------- */
#define VS_PASS (!vs_active || vs_me < 0)

void vs_atomic_point(const char *file, int line) {
    (void)file;
    if (VS_PASS) return;
    vs_yield(VOP_ATOMIC, line & 0xffff);
}

/* a data (non-scheduling) choice with n alternatives, alternative 0 is the default, others cost 1 */
static int vs_choose(int n) {
    if (n <= 1) return 0;
    struct vs_point *p = &vs_res->pts[vs_res->npoints];
    memset(p, 0, sizeof(*p));
    p->tid = (uint8_t)vs_me;
    p->op = VOP_DATA;
    p->nthr = 1;
    p->nalts = (uint8_t)(n > 12 ? 12 : n);
    p->alt_tid[0] = (uint8_t)vs_me;
    p->digest = vs_digest();
    int idx = vs_res->npoints, choice = 0;
    if (idx < vs_prefix_len) {
        choice = vs_prefix[idx];
        if (choice >= p->nalts) vs_harness_error("replay divergence at data choice");
    }
    p->chosen = (uint8_t)choice;
    vs_res->npoints++;
    return choice;
}

int __wrap_pthread_mutex_init(pthread_mutex_t *m, const pthread_mutexattr_t *a) {
    if (VS_PASS) return __real_pthread_mutex_init(m, a);
    for (int i = 0; i < vs_nobj; ++i)
        if (vs_objs[i].addr == m && vs_objs[i].kind == 1) vs_objs[i].destroyed = 1;
    vs_obj_id(m, 1);
    return 0;
}
int __wrap_pthread_mutex_destroy(pthread_mutex_t *m) {
    if (VS_PASS) return __real_pthread_mutex_destroy(m);
    int o = vs_obj_id(m, 1);
    if (vs_objs[o].owner >= 0) vs_fail("sync-misuse", "mutex (obj %d) destroyed while held by T%d", o, vs_objs[o].owner);
    for (int t = 0; t < vs_nthreads; ++t)
        if (t != vs_me && vs_th[t].state == 1 && vs_th[t].op == VOP_LOCK && vs_th[t].obj == o) vs_fail("sync-misuse", "mutex (obj %d) destroyed while T%d waits for it", o, t);
    vs_objs[o].destroyed = 1;
    return 0;
}
int __wrap_pthread_mutex_lock(pthread_mutex_t *m) {
    if (VS_PASS) return __real_pthread_mutex_lock(m);
    int o = vs_obj_id(m, 1);
    if (vs_objs[o].owner == vs_me) {
        vs_fail("deadlock", "T%d locks mutex (obj %d) it already holds", vs_me, o);
        vs_finish_child(2);
    }
    vs_yield(VOP_LOCK, o);
    vs_objs[o].owner = vs_me;
    vs_th[vs_me].last_lock_seq = vs_res->npoints;
    return 0;
}
int __wrap_pthread_mutex_trylock(pthread_mutex_t *m) {
    if (VS_PASS) return __real_pthread_mutex_trylock(m);
    int o = vs_obj_id(m, 1);
    vs_yield(VOP_TRYLOCK, o);
    if (vs_objs[o].owner >= 0) return EBUSY;
    vs_objs[o].owner = vs_me;
    return 0;
}
int __wrap_pthread_mutex_unlock(pthread_mutex_t *m) {
    if (VS_PASS) return __real_pthread_mutex_unlock(m);
    int o = vs_obj_id(m, 1);
    if (vs_objs[o].owner != vs_me) vs_fail("sync-misuse", "T%d unlocks mutex (obj %d) owned by %d", vs_me, o, vs_objs[o].owner);
    vs_objs[o].owner = -1; /* releasing is not a schedule point: the next point of this thread is */
    return 0;
}
int __wrap_pthread_cond_init(pthread_cond_t *c, const pthread_condattr_t *a) {
    if (VS_PASS) return __real_pthread_cond_init(c, a);
    for (int i = 0; i < vs_nobj; ++i)
        if (vs_objs[i].addr == c && vs_objs[i].kind == 2) vs_objs[i].destroyed = 1;
    vs_obj_id(c, 2);
    return 0;
}
int __wrap_pthread_cond_destroy(pthread_cond_t *c) {
    if (VS_PASS) return __real_pthread_cond_destroy(c);
    int o = vs_obj_id(c, 2);
    for (int t = 0; t < vs_nthreads; ++t)
        if (t != vs_me && vs_th[t].state == 1 && vs_th[t].op == VOP_CWAKE && vs_th[t].waiting_cv == o && !vs_th[t].signalled && !vs_th[t].timedout)
            vs_fail("sync-misuse", "condition variable (obj %d) destroyed while T%d waits on it", o, t);
    vs_objs[o].destroyed = 1;
    return 0;
}
static int vs_cond_wait_common(pthread_cond_t *c, pthread_mutex_t *m, const struct timespec *abstime) {
    int co = vs_obj_id(c, 2), mo = vs_obj_id(m, 1);
    struct vs_thread *th = &vs_th[vs_me];
    vs_yield(VOP_CWAIT, co);
    if (vs_objs[mo].owner != vs_me) vs_fail("sync-misuse", "T%d waits on cond (obj %d) without holding mutex (obj %d)", vs_me, co, mo);
    vs_objs[mo].owner = -1;
    th->waiting_cv = co;
    th->signalled = th->timedout = th->spurious = 0;
    th->has_deadline = abstime != NULL;
    if (abstime) th->deadline = (uint64_t)abstime->tv_sec * 1000000000ull + (uint64_t)abstime->tv_nsec;
    th->mutex_for_wake = mo;
    if (abstime && th->deadline <= vs_clock_ns) th->timedout = 1; /* already past */
    vs_yield(VOP_CWAKE, co);
    vs_objs[mo].owner = vs_me;
    th->waiting_cv = -1;
    th->has_deadline = 0;
    int rc = (th->timedout && !th->signalled) ? ETIMEDOUT : 0;
    th->signalled = th->timedout = th->spurious = 0;
    return rc;
}
int __wrap_pthread_cond_wait(pthread_cond_t *c, pthread_mutex_t *m) {
    if (VS_PASS) return __real_pthread_cond_wait(c, m);
    return vs_cond_wait_common(c, m, NULL);
}
int __wrap_pthread_cond_timedwait(pthread_cond_t *c, pthread_mutex_t *m, const struct timespec *t) {
    if (VS_PASS) return __real_pthread_cond_timedwait(c, m, t);
    return vs_cond_wait_common(c, m, t);
}
static int vs_signal_common(pthread_cond_t *c, int all) {
    int co = vs_obj_id(c, 2);
    vs_yield(all ? VOP_BROADCAST : VOP_SIGNAL, co);
    int w[VS_MAX_THREADS], nw = 0;
    for (int t = 0; t < vs_nthreads; ++t)
        if (vs_th[t].state == 1 && vs_th[t].op == VOP_CWAKE && vs_th[t].waiting_cv == co && !vs_th[t].signalled && !vs_th[t].timedout) w[nw++] = t;
    if (nw == 0) return 0;
    if (all) {
        for (int i = 0; i < nw; ++i) vs_th[w[i]].signalled = 1;
    } else {
        int k = vs_choose(nw); /* which waiter a signal wakes is nondeterministic: enumerated */
        vs_th[w[k]].signalled = 1;
    }
    return 0;
}
int __wrap_pthread_cond_signal(pthread_cond_t *c) {
    if (VS_PASS) return __real_pthread_cond_signal(c);
    return vs_signal_common(c, 0);
}
int __wrap_pthread_cond_broadcast(pthread_cond_t *c) {
    if (VS_PASS) return __real_pthread_cond_broadcast(c);
    return vs_signal_common(c, 1);
}

static void vs_thread_exit_current(void) {
    int me = vs_me;
    vs_th[me].state = 2;
    vs_th[me].op = VOP_EXIT;
    /* hand the baton on; if nobody can run the scheduler reports deadlock / advances time */
    bool others = false;
    for (int t = 0; t < vs_nthreads; ++t)
        if (vs_th[t].state == 1) others = true;
    if (others) vs_schedule(me);
}
static void *vs_trampoline(void *p) {
    int id = (int)(intptr_t)p;
    vs_me = id;
    vs_futex_wait(&vs_th[id].go);
    vs_th[id].pc++;
    vs_th[id].fn(vs_th[id].arg);
    vs_thread_exit_current();
    return NULL;
}
static int vs_refuse_creates; /* environment answer set by a scenario: the next n pthread_create calls fail with EAGAIN */
int __wrap_pthread_create(pthread_t *thr, const pthread_attr_t *attr, void *(*fn)(void *), void *arg) {
    if (VS_PASS) return __real_pthread_create(thr, attr, fn, arg);
    vs_yield(VOP_CREATE, vs_nthreads);
    if (vs_refuse_creates > 0) {
        --vs_refuse_creates;
        return EAGAIN;
    }
    if (vs_nthreads >= VS_MAX_THREADS) vs_harness_error("too many threads");
    int id = vs_nthreads;
    struct vs_thread *th = &vs_th[id];
    memset(th, 0, sizeof(*th));
    th->state = 1;
    th->op = VOP_START;
    th->fn = fn;
    th->arg = arg;
    th->waiting_cv = -1;
    th->spin_obj = -1;
    vs_nthreads++;
    int rc = __real_pthread_create(&th->real, attr, vs_trampoline, (void *)(intptr_t)id);
    if (rc) { /* e.g. an affinity the kernel refuses: an environment answer the caller has to handle */
        memset(th, 0, sizeof(*th));
        vs_nthreads--;
        return rc;
    }
    *thr = th->real;
    /* a second point right after the creation: the new thread may run (even to completion) before the creator executes
     * the statement that follows pthread_create - stores it makes there are not yet visible to anybody (added after a
     * seeded change that published the thread id from the creator instead of from the thread itself) */
    vs_yield(VOP_CREATED, id);
    return 0;
}
static int vs_joined[VS_MAX_THREADS];
/* pthread_t values are recycled once a thread has been joined: match the newest thread not yet joined */
static int vs_find_thread(pthread_t t) {
    for (int i = vs_nthreads - 1; i >= 0; --i)
        if (vs_joined[i] != 1 && pthread_equal(t, vs_th[i].real)) return i;
    return -1;
}
int __wrap_pthread_join(pthread_t t, void **ret) {
    if (VS_PASS) return __real_pthread_join(t, ret);
    int id = vs_find_thread(t);
    if (id < 0) return ESRCH; /* what glibc answers for an id that names no joinable thread */
    if (id == vs_me) return EDEADLK;
    vs_th[vs_me].join_target = id;
    vs_yield(VOP_JOIN, id);
    vs_joined[id] = 1;
    return __real_pthread_join(t, ret);
}
int __wrap_pthread_detach(pthread_t t) {
    if (VS_PASS) return __real_pthread_detach(t);
    int id = vs_find_thread(t);
    if (id >= 0) vs_joined[id] = 2;
    return __real_pthread_detach(t);
}
int __wrap_pthread_once(pthread_once_t *flag, void (*fn)(void)) {
    if (VS_PASS) return __real_pthread_once(flag, fn);
    int o = vs_obj_id(flag, 3);
    vs_yield(VOP_ONCE, o);
    if (vs_objs[o].owner == 0) {
        vs_objs[o].owner = 1;
        fn();
        vs_objs[o].owner = 2;
    }
    return 0;
}
int __wrap_clock_gettime(clockid_t id, struct timespec *ts) {
    if (VS_PASS) return __real_clock_gettime(id, ts);
    ts->tv_sec = (time_t)(vs_clock_ns / 1000000000ull);
    ts->tv_nsec = (long)(vs_clock_ns % 1000000000ull);
    return 0;
}
int __wrap_nanosleep(const struct timespec *req, struct timespec *rem) {
    if (VS_PASS) return __real_nanosleep(req, rem);
    vs_yield(VOP_SLEEP, 0);
    vs_clock_ns += (uint64_t)req->tv_sec * 1000000000ull + (uint64_t)req->tv_nsec;
    if (rem) rem->tv_sec = 0, rem->tv_nsec = 0;
    return 0;
}
int __wrap_pthread_setname_np(pthread_t t, const char *n) {
    (void)t;
    (void)n;
    return 0;
}
/* explicit yield for harness-side polling loops */
static void vs_user_yield(void) {
    if (VS_PASS) return;
    vs_yield(VOP_YIELD, 0);
}
static int vs_threads_unfinished(void) {
    int n = 0;
    for (int t = 1; t < vs_nthreads; ++t)
        if (vs_th[t].state == 1) ++n;
    return n;
}
static int vs_threads_created(void) { return vs_nthreads - 1; }
static int vs_thread_was_joined(int t) { return vs_joined[t] == 1; }
static int vs_current_tid(void) { return vs_me; }
/* total order of schedule points in this execution: lets an oracle compare "call X returned" with "thread T last took a
 * lock" without guessing */
static int vs_seq_now(void) { return vs_res->npoints; }
static int vs_last_lock_seq(int tid) { return vs_th[tid].last_lock_seq; }
static uint64_t vs_now_ns(void) { return vs_clock_ns; }

/* ------------------------------------------------------------------ explorer (parent) -------- */
struct vsx_scenario {
    const char *name;
    void (*run)(void);  /* executed on logical thread T0 under the scheduler; use VS_CHECK / vs_outcome */
    int bound_quick, bound_thorough;
    int horizon;
    int spurious;       /* allow spurious condvar wake-ups as cost-1 deviations */
    int no_timeouts;    /* do not offer "timer lands first" deviations */
    uint64_t max_exec;  /* cap on executions (0 = 400000) */
    uint64_t (*digest)(void);
};

struct vsx_job {
    uint16_t len;
    uint8_t cost;
    uint8_t *choices;
};
struct vsx_queue {
    struct vsx_job *jobs;
    size_t n, cap;
};
static struct vsx_queue vsx_q[8];
static void vsx_push(int cost, const uint8_t *choices, int len) {
    struct vsx_queue *q = &vsx_q[cost];
    if (q->n == q->cap) {
        q->cap = q->cap ? q->cap * 2 : 1024;
        q->jobs = (struct vsx_job *)realloc(q->jobs, q->cap * sizeof(struct vsx_job));
    }
    q->jobs[q->n].len = (uint16_t)len;
    q->jobs[q->n].cost = (uint8_t)cost;
    q->jobs[q->n].choices = (uint8_t *)malloc((size_t)len + 1);
    memcpy(q->jobs[q->n].choices, choices, (size_t)len);
    q->n++;
}
static bool vsx_pop(int bound, struct vsx_job *out) {
    for (int c = 0; c <= bound; ++c)
        if (vsx_q[c].n) {
            *out = vsx_q[c].jobs[--vsx_q[c].n];
            return true;
        }
    return false;
}

static void vsx_child(const struct vsx_scenario *sc, struct vs_result *res, const uint8_t *prefix, int plen) {
    vs_res = res;
    vs_prefix = prefix;
    vs_prefix_len = plen;
    vs_horizon = sc->horizon > 0 ? sc->horizon : 5000;
    /* spurious condition-variable wake-ups (POSIX allows them) are cost-1 deviations: always in the thorough tier,
     * in the quick tier only for scenarios that ask for them; .spurious = -1 switches them off */
    vs_allow_spurious = sc->spurious > 0 || (sc->spurious == 0 && v_thorough());
    vs_allow_timeouts = !sc->no_timeouts;
    vs_user_digest = sc->digest;
    memset(vs_th, 0, sizeof(vs_th));
    vs_nthreads = 1;
    vs_th[0].state = 1;
    vs_th[0].waiting_cv = -1;
    vs_th[0].spin_obj = -1;
    vs_th[0].real = pthread_self();
    vs_me = 0;
    vs_last_runner = 0;
    vs_active = 1;
    sc->run();
    vs_active = 0;
    vs_finish_child(res->sig[0] ? 2 : 1);
}

static void vsx_token(char *buf, size_t cap, const char *name, const struct vs_point *pts, int n) {
    size_t o = (size_t)snprintf(buf, cap, "%s:", name);
    /* trailing default choices are implied */
    int last = n;
    while (last > 0 && pts[last - 1].chosen == 0) --last;
    for (int i = 0; i < last && o + 6 < cap; ++i) o += (size_t)snprintf(buf + o, cap - o, "%s%d", i ? "." : "", pts[i].chosen);
    if (last == 0 && o + 2 < cap) snprintf(buf + o, cap - o, "-");
}

static void vsx_print_trace(const struct vs_result *r) {
    for (int i = 0; i < r->npoints; ++i) {
        const struct vs_point *p = &r->pts[i];
        if (p->nalts <= 1 && p->op != VOP_FORCED_TIMEOUT) {
            v_out("INFO   %3d T%d %s(%d)", i, p->tid, vs_op_name[p->op], p->obj);
            continue;
        }
        char alts[200];
        size_t o = 0;
        for (int a = 0; a < p->nalts && o + 24 < sizeof(alts); ++a)
            o += (size_t)snprintf(alts + o, sizeof(alts) - o, "%s%sT%d%s", a ? "," : "", a == p->chosen ? "*" : "", p->alt_tid[a],
                                  a >= p->nthr ? (p->alt_kind[a] == VOP_TIMEOUT ? ":timeout" : ":spurious") : "");
        v_out("INFO   %3d T%d %s(%d)  alternatives [%s]%s", i, p->tid, vs_op_name[p->op], p->obj, alts,
              p->chosen && p->chosen < p->nthr && p->thread_alt_cost ? "  <- preemption" : (p->chosen >= p->nthr ? "  <- deviation" : ""));
    }
}

struct vsx_slot {
    pid_t pid;
    struct vs_result *res;
    struct vsx_job job;
    double started;
};

static struct esx_set_lite {
    uint64_t *k;
    uint64_t cap, n;
} vsx_states, vsx_outcomes;
static bool vsx_set_add(struct esx_set_lite *s, uint64_t h) {
    if (!h) h = 1;
    if (!s->k) {
        s->cap = 1 << 16;
        s->k = (uint64_t *)calloc(s->cap, 8);
    }
    if ((s->n + 1) * 2 > s->cap) {
        uint64_t *old = s->k, oc = s->cap;
        s->cap *= 2;
        s->k = (uint64_t *)calloc(s->cap, 8);
        s->n = 0;
        for (uint64_t i = 0; i < oc; ++i)
            if (old[i]) {
                uint64_t j = old[i] & (s->cap - 1);
                while (s->k[j]) j = (j + 1) & (s->cap - 1);
                s->k[j] = old[i];
                s->n++;
            }
        free(old);
    }
    uint64_t j = h & (s->cap - 1);
    while (s->k[j]) {
        if (s->k[j] == h) return false;
        j = (j + 1) & (s->cap - 1);
    }
    s->k[j] = h;
    s->n++;
    return true;
}
static uint64_t vsx_strhash(const char *s) {
    uint64_t h = 0xcbf29ce484222325ull;
    for (; *s; ++s) h = (h ^ (uint8_t)*s) * 0x100000001b3ull;
    return h;
}

/* explore one scenario up to `bound`. */
static void vsx_explore(const struct vsx_scenario *sc, int bound) {
    int par = v_nworkers;
    struct vsx_slot slots[V_MAX_WORKERS];
    memset(slots, 0, sizeof(slots));
    for (int i = 0; i < par; ++i) {
        slots[i].res = (struct vs_result *)mmap(NULL, sizeof(struct vs_result), PROT_READ | PROT_WRITE, MAP_SHARED | MAP_ANONYMOUS, -1, 0);
        slots[i].pid = 0;
    }
    for (int c = 0; c < 8; ++c) vsx_q[c].n = 0;
    uint8_t none[1] = {0};
    vsx_push(0, none, 0);
    uint64_t execs = 0, points = 0, viol = 0, max_exec = sc->max_exec ? sc->max_exec : 400000;
    uint64_t by_cost[8] = {0};
    int running = 0;
    bool capped = false;
    uint64_t out_before = vsx_outcomes.n;
    int max_points = 0;
    char sample_tok[700] = "";
    for (;;) {
        /* launch */
        while (running < par) {
            struct vsx_job job;
            if (capped || !vsx_pop(bound, &job)) break;
            if (execs + (uint64_t)running >= max_exec || v_past_deadline()) {
                capped = true;
                free(job.choices);
                break;
            }
            int s = 0;
            while (slots[s].pid) ++s;
            memset((void *)slots[s].res, 0, offsetof(struct vs_result, pts));
            slots[s].job = job;
            slots[s].started = v_now();
            fflush(stdout);
            v_sh->slot[s].report[0] = 0;
            pid_t pid = fork();
            if (pid == 0) {
                v_worker = s; /* an ASan report of this execution lands in this slot */
                alarm(60);
                vsx_child(sc, slots[s].res, job.choices, job.len);
                _exit(0);
            }
            slots[s].pid = pid;
            running++;
        }
        if (running == 0) break;
        int status = 0;
        pid_t p = wait(&status);
        if (p < 0) {
            if (errno == EINTR) continue;
            break;
        }
        int s = -1;
        for (int i = 0; i < par; ++i)
            if (slots[i].pid == p) s = i;
        if (s < 0) continue;
        running--;
        slots[s].pid = 0;
        struct vs_result *r = slots[s].res;
        struct vsx_job job = slots[s].job;
        execs++;
        by_cost[job.cost]++;
        points += (uint64_t)r->npoints;
        if (r->npoints > max_points) max_points = r->npoints;
        char tok[1400];
        vsx_token(tok, sizeof(tok), sc->name, r->pts, r->npoints);
        if (r->status == 3 || (r->status == 0 && !(WIFEXITED(status) && WEXITSTATUS(status) == 99) && !WIFSIGNALED(status))) {
            fprintf(stderr, "VSX: harness error in %s (status %d, wait status %#x): %s\n", tok, r->status, status, r->msg);
            fprintf(stderr, "VSX: full prefix of the failing job (%d choices):", (int)job.len);
            for (int k = 0; k < (int)job.len; ++k) fprintf(stderr, "%s%d", k ? "." : " ", job.choices[k]);
            fprintf(stderr, "\n");
            exit(2);
        }
        for (int i = 0; i < r->npoints; ++i) vsx_set_add(&vsx_states, r->pts[i].digest);
        if (r->status == 0) {
            /* died without finishing: ASan report, signal or alarm inside the library under this schedule */
            char sig[200], kind[64] = "", frames[400] = "-";
            if (v_sh->slot[s].report[0]) v_parse_report((const char *)v_sh->slot[s].report, kind, sizeof(kind), frames, sizeof(frames));
            if (WIFSIGNALED(status) && WTERMSIG(status) == SIGALRM)
                snprintf(sig, sizeof(sig), "%s/hang-real-time", sc->name);
            else if (kind[0])
                snprintf(sig, sizeof(sig), "%s/asan:%s", sc->name, kind);
            else if (WIFSIGNALED(status))
                snprintf(sig, sizeof(sig), "%s/signal:%d", sc->name, WTERMSIG(status));
            else
                snprintf(sig, sizeof(sig), "%s/asan-or-abort", sc->name);
            __sync_fetch_and_add(&v_sh->viol_count, 1);
            V_COUNT("violations_raw", 1);
            {
                char key[300];
                snprintf(key, sizeof(key), "%s@%.40s", sig, frames);
                if (v_sig_admit(key)) {
                    const char *e = v_sh->slot[s].report[0] ? strstr((const char *)v_sh->slot[s].report, "ERROR:") : NULL;
                    v_out("VIOL sig=%s replay=%s frames=%s :: execution died (wait status %#x) after %d points: %.200s", sig, tok, frames, status, r->npoints, e ? e : "(no sanitizer report)");
                }
            }
            viol++;
        } else if (r->status == 2) {
            char sig[300];
            snprintf(sig, sizeof(sig), "%s/%s", sc->name, r->sig);
            v_crumb("%s", tok);
            v_viol(sig, "%s  [cost %d, %d points]", r->msg, job.cost, r->npoints);
            viol++;
        }
        if (r->outcome[0] && vsx_set_add(&vsx_outcomes, vsx_strhash(r->outcome) ^ vsx_strhash(sc->name) * 31)) v_out("INFO outcome[%s] %s", sc->name, r->outcome);
        if (!sample_tok[0] || (job.cost == bound && sample_tok[0] != '!')) {
            snprintf(sample_tok, sizeof(sample_tok), "%s%.600s", job.cost == bound ? "!" : "", tok);
        }
        /* children: alternatives at every point at or after the prefix */
        int cost = 0;
        for (int i = 0; i < r->npoints && i < VS_MAX_PREFIX; ++i) {
            const struct vs_point *pt = &r->pts[i];
            if (i >= job.len) {
                for (int a = 1; a < pt->nalts; ++a) {
                    int c = cost + (a < pt->nthr ? pt->thread_alt_cost : 1);
                    if (c > bound) continue;
                    uint8_t buf[VS_MAX_PREFIX + 1];
                    for (int k = 0; k < i; ++k) buf[k] = r->pts[k].chosen;
                    buf[i] = (uint8_t)a;
                    vsx_push(c, buf, i + 1);
                }
            }
            if (pt->chosen) cost += pt->chosen < pt->nthr ? pt->thread_alt_cost : 1;
        }
        free(job.choices);
    }
    if (capped) v_exhaustive = 0;
    for (int c = 0; c < 8; ++c) {
        for (size_t i = 0; i < vsx_q[c].n; ++i) free(vsx_q[c].jobs[i].choices);
        vsx_q[c].n = 0;
    }
    for (int i = 0; i < par; ++i) munmap(slots[i].res, sizeof(struct vs_result));
    V_COUNT("schedules", execs);
    V_COUNT("traces", execs);
    V_COUNT("transitions", points);
    V_COUNT("scenarios", 1);
    V_MAXSTAT("max_points_per_execution", (uint64_t)max_points);
    V_MAXSTAT("max_bound_completed", (uint64_t)(capped ? 0 : bound));
    v_out("INFO scenario %s bound=%d executions=%" PRIu64 " (by cost: %" PRIu64 "/%" PRIu64 "/%" PRIu64 "/%" PRIu64 ") points=%" PRIu64
          " max_points=%d distinct_outcomes=%" PRIu64 " violations=%" PRIu64 "%s",
          sc->name, bound, execs, by_cost[0], by_cost[1], by_cost[2], by_cost[3], points, max_points, (uint64_t)(vsx_outcomes.n - out_before), viol,
          capped ? " CAPPED" : "");
    v_sample("%s: %" PRIu64 " schedules at bound %d; e.g. schedule %s", sc->name, execs, bound, sample_tok[0] == '!' ? sample_tok + 1 : sample_tok);
}

static int vsx_replay(const struct vsx_scenario *sc, const char *token) {
    const char *p = token + strlen(sc->name) + 1;
    uint8_t pre[VS_MAX_PREFIX];
    int n = 0;
    while (*p && *p != '-' && n < VS_MAX_PREFIX) {
        pre[n++] = (uint8_t)atoi(p);
        while (*p && *p != '.') ++p;
        if (*p == '.') ++p;
    }
    struct vs_result *res = (struct vs_result *)mmap(NULL, sizeof(struct vs_result), PROT_READ | PROT_WRITE, MAP_SHARED | MAP_ANONYMOUS, -1, 0);
    fflush(stdout);
    v_sh->slot[0].report[0] = 0;
    pid_t pid = fork();
    if (pid == 0) {
        v_worker = 0;
        alarm(120);
        vsx_child(sc, res, pre, n);
        _exit(0);
    }
    int status = 0;
    waitpid(pid, &status, 0);
    v_out("INFO replay of %s: %d points, status %d", token, res->npoints, res->status);
    vsx_print_trace(res);
    int rc = 0;
    if (res->status == 2) {
        char sig[300];
        snprintf(sig, sizeof(sig), "%s/%s", sc->name, res->sig);
        v_crumb("%s", token);
        v_viol(sig, "%s", res->msg);
        rc = 1;
    } else if (res->status == 0) {
        char sig[200], kind[64] = "", frames[400] = "-";
        if (v_sh->slot[0].report[0]) v_parse_report((const char *)v_sh->slot[0].report, kind, sizeof(kind), frames, sizeof(frames));
        if (kind[0]) snprintf(sig, sizeof(sig), "%s/asan:%s", sc->name, kind);
        else if (WIFSIGNALED(status)) snprintf(sig, sizeof(sig), "%s/signal:%d", sc->name, WTERMSIG(status));
        else snprintf(sig, sizeof(sig), "%s/asan-or-abort", sc->name);
        __sync_fetch_and_add(&v_sh->viol_count, 1);
        v_out("VIOL sig=%s replay=%s frames=%s :: execution died (wait status %#x)", sig, token, frames, status);
        rc = 1;
    } else if (res->status == 3) {
        v_out("INFO harness error: %s", res->msg);
        rc = 2;
    }
    if (res->outcome[0]) v_out("INFO outcome: %s", res->outcome);
    return rc;
}

static int vsx_main(const struct vsx_scenario *scs, int n) {
    int rc = 0;
    for (int i = 0; i < n; ++i) {
        if (v_replay_token) {
            size_t l = strlen(scs[i].name);
            if (strncmp(v_replay_token, scs[i].name, l) == 0 && v_replay_token[l] == ':') rc |= vsx_replay(&scs[i], v_replay_token);
            continue;
        }
        int bound = v_thorough() ? scs[i].bound_thorough : scs[i].bound_quick;
        if (bound < 0) continue;
        vsx_explore(&scs[i], bound);
    }
    V_COUNT("states", vsx_states.n);
    V_COUNT("distinct_outcomes", vsx_outcomes.n);
    v_finish();
    return (v_sh->viol_count || rc) ? 1 : 0;
}

#endif /* VSX_H */
