/*
 * vs_hooks.h — force-included (-include) into every translation unit of the `sched` library variant
 * (DESIGN §4.4).  Gives each __atomic_* builtin used by include/aws/common/atomics_gnu.inl a schedule
 * point.  A function-like macro is not re-expanded inside its own replacement list, so the inner name
 * is the compiler builtin.  Nothing in /repo is modified.
 */
#ifndef VS_HOOKS_H
#define VS_HOOKS_H
#if !defined(__ASSEMBLER__) && !defined(VS_NO_HOOKS)
#    ifdef __cplusplus
extern "C" {
#    endif
void vs_atomic_point(const char *file, int line);
#    ifdef __cplusplus
}
#    endif
#    define __atomic_load_n(p, o) (vs_atomic_point(__FILE__, __LINE__), __atomic_load_n((p), (o)))
#    define __atomic_store_n(p, v, o) (vs_atomic_point(__FILE__, __LINE__), __atomic_store_n((p), (v), (o)))
#    define __atomic_exchange_n(p, v, o) (vs_atomic_point(__FILE__, __LINE__), __atomic_exchange_n((p), (v), (o)))
#    define __atomic_compare_exchange_n(p, e, d, w, s, f)                                                          \
        (vs_atomic_point(__FILE__, __LINE__), __atomic_compare_exchange_n((p), (e), (d), (w), (s), (f)))
#    define __atomic_fetch_add(p, v, o) (vs_atomic_point(__FILE__, __LINE__), __atomic_fetch_add((p), (v), (o)))
#    define __atomic_fetch_sub(p, v, o) (vs_atomic_point(__FILE__, __LINE__), __atomic_fetch_sub((p), (v), (o)))
#    define __atomic_fetch_or(p, v, o) (vs_atomic_point(__FILE__, __LINE__), __atomic_fetch_or((p), (v), (o)))
#    define __atomic_fetch_and(p, v, o) (vs_atomic_point(__FILE__, __LINE__), __atomic_fetch_and((p), (v), (o)))
#    define __atomic_fetch_xor(p, v, o) (vs_atomic_point(__FILE__, __LINE__), __atomic_fetch_xor((p), (v), (o)))
#    define __atomic_thread_fence(o) (vs_atomic_point(__FILE__, __LINE__), __atomic_thread_fence((o)))
#endif
#endif /* VS_HOOKS_H */
