/*
 * bee.h — BEE: bounded exhaustive enumeration of inputs (DESIGN §4.3).
 *
 * A harness registers *sections*; a section is a finite index space [0,total) and a function that
 * maps an index to one input (odometer — nothing is random) and evaluates it against the oracle.
 * Every section is run to completion over forked workers (vpool): an ASan report, fatal signal or
 * watchdog expiry inside the library becomes a VIOL naming that single index.  The replay token
 * of any case is "<section>:<index>".
 */
#ifndef BEE_H
#define BEE_H
#include "vcommon.h"
#include <aws/common/allocator.h>

struct bee_section {
    const char *name;
    uint64_t (*total)(void);           /* may depend on v_tier */
    void (*eval)(uint64_t index, void *ctx);
    int timeout_s;
};

#define BEE_MAX_SECTIONS 64
static struct bee_section bee_sections[BEE_MAX_SECTIONS];
static int bee_nsections;
static const char *bee_cur_section = "?";

static void bee_register(const char *name, uint64_t (*total)(void), void (*eval)(uint64_t, void *), int timeout_s) {
    bee_sections[bee_nsections].name = name;
    bee_sections[bee_nsections].total = total;
    bee_sections[bee_nsections].eval = eval;
    bee_sections[bee_nsections].timeout_s = timeout_s;
    ++bee_nsections;
}

/* to be called first thing in eval(): sets the replay token */
#define BEE_ITEM(index) v_crumb("%s:%" PRIu64, bee_cur_section, (uint64_t)(index))

/* violation inside a BEE section: signature = <section>/<clause> */
static void bee_fail(const char *clause, const char *fmt, ...) {
    char msg[2500], sig[300];
    va_list ap;
    va_start(ap, fmt);
    vsnprintf(msg, sizeof(msg), fmt, ap);
    va_end(ap);
    snprintf(sig, sizeof(sig), "%s/%s", bee_cur_section, clause);
    v_viol(sig, "%s", msg);
}
#define BEE_CHECK(cond, clause, ...)                                                                             \
    do {                                                                                                         \
        if (!(cond)) bee_fail(clause, __VA_ARGS__);                                                              \
    } while (0)

/* an allocator with only the two mandatory entry points (aws/common/allocator.h: mem_realloc and mem_calloc are optional):
 * aws_mem_realloc / aws_mem_calloc then go through the library's own emulation (acquire + copy + release / acquire +
 * zero).  Blocks come from the sanitizer's malloc: junk-filled when fresh, poisoned when released.  An environment answer
 * like any other - sections that make library objects grow are run a second time with it (added after three seeded changes
 * in the emulation, which no stock allocator ever enters). */
static void *bee_min_acquire(struct aws_allocator *a, size_t n) {
    (void)a;
    return malloc(n ? n : 1);
}
static void bee_min_release(struct aws_allocator *a, void *p) {
    (void)a;
    free(p);
}
static struct aws_allocator bee_min_alloc = {.mem_acquire = bee_min_acquire, .mem_release = bee_min_release, .mem_realloc = NULL, .mem_calloc = NULL, .impl = NULL};
static inline struct aws_allocator *bee_min_allocator(void) { return &bee_min_alloc; }

/* ... and one whose realloc always moves the block to a new one of exactly the new size, also when shrinking (the stock
 * allocator keeps the block when asked to shrink, so nothing notices a capacity recorded larger than the storage) */
static void *bee_mv_realloc(struct aws_allocator *a, void *p, size_t oldsize, size_t newsize) {
    (void)a;
    void *q = malloc(newsize ? newsize : 1);
    if (p) {
        memcpy(q, p, oldsize < newsize ? oldsize : newsize);
        free(p);
    }
    return q;
}
static struct aws_allocator bee_mv_alloc = {.mem_acquire = bee_min_acquire, .mem_release = bee_min_release, .mem_realloc = bee_mv_realloc, .mem_calloc = NULL, .impl = NULL};
static inline struct aws_allocator *bee_moving_allocator(void) { return &bee_mv_alloc; }

/* exact-size heap block holding a copy of src (one-byte over-reads become ASan errors) */
static uint8_t *bee_block(const void *src, size_t n) {
    uint8_t *p = (uint8_t *)malloc(n ? n : 1);
    if (n) memcpy(p, src, n);
    if (!n) {
        /* a zero-length view still gets a valid pointer into a 1-byte block whose byte must not be read:
         * keep it simple — hand out the block, callers pass len 0 */
    }
    return p;
}

/* odometer digit extraction: returns digit and divides *idx */
static inline unsigned bee_digit(uint64_t *idx, unsigned base) {
    unsigned d = (unsigned)(*idx % base);
    *idx /= base;
    return d;
}
static inline uint64_t bee_pow(uint64_t b, unsigned e) {
    uint64_t r = 1;
    while (e--) r *= b;
    return r;
}
/* all strings of length <= n over an alphabet of k symbols: count and decode */
static uint64_t bee_strings_upto(unsigned k, unsigned n) {
    uint64_t t = 0;
    for (unsigned l = 0; l <= n; ++l) t += bee_pow(k, l);
    return t;
}
static size_t bee_string_at(uint64_t idx, const uint8_t *alpha, unsigned k, unsigned nmax, uint8_t *out) {
    for (unsigned l = 0; l <= nmax; ++l) {
        uint64_t c = bee_pow(k, l);
        if (idx < c) {
            for (unsigned i = 0; i < l; ++i) out[i] = alpha[bee_digit(&idx, k)];
            return l;
        }
        idx -= c;
    }
    return 0;
}

static int bee_main(int argc, char **argv) {
    (void)argc;
    (void)argv;
    int rc = 0;
    if (v_replay_token) {
        const char *colon = strrchr(v_replay_token, ':');
        if (!colon) {
            fprintf(stderr, "bad replay token\n");
            return 2;
        }
        size_t n = (size_t)(colon - v_replay_token);
        for (int s = 0; s < bee_nsections; ++s) {
            if (strlen(bee_sections[s].name) == n && strncmp(bee_sections[s].name, v_replay_token, n) == 0) {
                bee_cur_section = bee_sections[s].name;
                uint64_t idx = strtoull(colon + 1, NULL, 10);
                rc |= v_run_isolated(bee_sections[s].name, bee_sections[s].eval, idx, NULL, 200);
                v_out("INFO replayed %s", v_replay_token);
            }
        }
        v_finish();
        return (v_sh->viol_count || rc) ? 1 : 0;
    }
    for (int s = 0; s < bee_nsections; ++s) {
        bee_cur_section = bee_sections[s].name;
        uint64_t total = bee_sections[s].total();
        if (!total) continue;
        double t0 = v_now();
        uint64_t v0 = v_sh->viol_count;
        if (v_past_deadline()) {
            v_exhaustive = 0;
            v_out("INFO section %s skipped: deadline", bee_sections[s].name);
            continue;
        }
        v_pool_run(bee_sections[s].name, total, bee_sections[s].eval, NULL, bee_sections[s].timeout_s);
        v_out("INFO section %s items=%" PRIu64 " wall=%.2fs violations=%" PRIu64, bee_sections[s].name, total,
              v_now() - t0, (uint64_t)(v_sh->viol_count - v0));
    }
    {
        /* a harness may abandon items it cannot judge in this environment (counter "items_abandoned"): never a verdict,
         * but the run is then not exhaustive */
        uint64_t ab = v_counter_value("items_abandoned");
        if (ab) {
            v_exhaustive = 0;
            v_out("INFO NOTE %" PRIu64 " item(s) abandoned without a verdict", ab);
        }
    }
    v_finish();
    return v_sh->viol_count ? 1 : 0;
}

#endif /* BEE_H */
