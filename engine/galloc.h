/*
 * galloc.h — deterministic guard / counting allocator used as the aws_allocator of harnesses (DESIGN §4.1).
 *
 *  - bump allocation out of one fixed-address arena, per-size LIFO free lists: the address just freed
 *    is the next one handed out for that size (forces address reuse), and after galloc_reset() the
 *    same history sees the same addresses again (ESX replays rely on it);
 *  - 32-byte red zones on both sides, freed blocks and red zones poisoned through ASan's manual
 *    poisoning interface, so out-of-bounds and use-after-free stay visible inside the arena;
 *  - live-block / live-byte / call counters, optional release hook (C01: "zero before release"),
 *    optional in-place realloc ("stays") or NULL mem_realloc (aws_mem_realloc then moves).
 */
#ifndef GALLOC_H
#define GALLOC_H
#include <aws/common/common.h>
#include <stdint.h>
#include <stdio.h>
#include <string.h>
#include <sys/mman.h>
#include <stdlib.h>
#include <unistd.h>
#include <errno.h>

#if defined(__SANITIZE_ADDRESS__)
#    include <sanitizer/asan_interface.h>
#    define GA_POISON(p, n) ASAN_POISON_MEMORY_REGION((p), (n))
#    define GA_UNPOISON(p, n) ASAN_UNPOISON_MEMORY_REGION((p), (n))
#    define GA_NOSAN __attribute__((no_sanitize_address))
#else
#    define GA_POISON(p, n) ((void)0)
#    define GA_UNPOISON(p, n) ((void)0)
#    define GA_NOSAN
#endif

#define GA_ARENA_BASE ((uintptr_t)0x200000000000ull) /* inside ASan's "HighMem" application range; 0x1000_0000_0000 lies in its shadow and can never be mapped */
#define GA_ARENA_SIZE ((size_t)1 << 30)
#define GA_RZ 32
#define GA_CLASSES 4097 /* rounded size / 16, up to 64 KiB */
#define GA_MAGIC_LIVE 0x6c697665u
#define GA_MAGIC_FREE 0x66726565u

struct ga_hdr { /* lives at the start of the left red zone; only touched by GA_NOSAN code */
    uint32_t magic;
    uint32_t pad;
    uint64_t size;    /* requested size */
    struct ga_hdr *next_free;
    uint64_t serial;
};

struct galloc_state {
    uint8_t *base;
    size_t bump;
    size_t high_water;
    struct ga_hdr *free_small[GA_CLASSES];
    struct ga_hdr *free_big;
    uint64_t live_blocks, live_bytes, n_acquire, n_release, serial;
    uint64_t bad_release; /* release of a pointer that is not a live block */
    void (*release_hook)(void *ptr, size_t size, void *ud);
    void *release_ud;
    int realloc_mode; /* 0: no mem_realloc (aws falls back to acquire+copy+release), 1: in place when it fits else move, 2: always move */
};
static struct galloc_state ga;

static size_t ga_round(size_t n) { return (n + 15u) & ~(size_t)15u; }

GA_NOSAN static void ga_init_once(void) {
    if (ga.base) return;
    void *p = mmap((void *)GA_ARENA_BASE, GA_ARENA_SIZE, PROT_READ | PROT_WRITE,
                   MAP_PRIVATE | MAP_ANONYMOUS | MAP_NORESERVE | MAP_FIXED_NOREPLACE, -1, 0);
    if (p == MAP_FAILED) {
        fprintf(stderr, "galloc: the fixed arena address is taken (errno %d); addresses are no longer reproducible across processes\n", errno);
        p = mmap(NULL, GA_ARENA_SIZE, PROT_READ | PROT_WRITE, MAP_PRIVATE | MAP_ANONYMOUS | MAP_NORESERVE, -1, 0);
        if (p == MAP_FAILED) {
            perror("galloc mmap");
            _exit(2);
        }
    }
    ga.base = (uint8_t *)p;
    ga.bump = 0;
    ga.high_water = 0;
}

GA_NOSAN static void galloc_reset(void) {
#ifdef GALLOC_PASSTHROUGH
    return;
#endif
    ga_init_once();
    if (ga.high_water) GA_POISON(ga.base, ga.high_water);
    ga.bump = 0;
    memset(ga.free_small, 0, sizeof(ga.free_small));
    ga.free_big = NULL;
    ga.live_blocks = ga.live_bytes = ga.n_acquire = ga.n_release = ga.serial = 0;
    ga.bad_release = 0;
}

GA_NOSAN static void *galloc_acquire(struct aws_allocator *a, size_t size) {
    (void)a;
#ifdef GALLOC_PASSTHROUGH /* free-running (thread-sanitizer) builds: thread-safe malloc, no bookkeeping */
    return malloc(size ? size : 1);
#endif
    ga_init_once();
    size_t r = ga_round(size ? size : 1);
    struct ga_hdr *h = NULL;
    if (r / 16 < GA_CLASSES) {
        h = ga.free_small[r / 16];
        if (h) ga.free_small[r / 16] = h->next_free;
    } else {
        struct ga_hdr **pp = &ga.free_big;
        while (*pp && ga_round((*pp)->size) != r) pp = &(*pp)->next_free;
        if (*pp) {
            h = *pp;
            *pp = h->next_free;
        }
    }
    if (!h) {
        size_t need = GA_RZ + r + GA_RZ;
        if (ga.bump + need > GA_ARENA_SIZE) {
            fprintf(stderr, "galloc arena exhausted\n");
            _exit(2);
        }
        h = (struct ga_hdr *)(ga.base + ga.bump);
        ga.bump += need;
        if (ga.bump > ga.high_water) ga.high_water = ga.bump;
    }
    uint8_t *user = (uint8_t *)h + GA_RZ;
    GA_POISON(h, GA_RZ + r + GA_RZ);
    h->magic = GA_MAGIC_LIVE;
    h->size = size;
    h->next_free = NULL;
    h->serial = ++ga.serial;
    GA_UNPOISON(user, size);
    /* deterministic junk so that "uninitialised" contents are the same on every replay */
    for (size_t i = 0; i < size; ++i) user[i] = (uint8_t)(0xA5 ^ (i * 7));
    ga.live_blocks++;
    ga.live_bytes += size;
    ga.n_acquire++;
    return user;
}

GA_NOSAN static int galloc_is_live(const void *ptr) {
    if (!ptr || (const uint8_t *)ptr < ga.base + GA_RZ || (const uint8_t *)ptr >= ga.base + ga.bump) return 0;
    const struct ga_hdr *h = (const struct ga_hdr *)((const uint8_t *)ptr - GA_RZ);
    return h->magic == GA_MAGIC_LIVE;
}
GA_NOSAN static size_t galloc_size_of(const void *ptr) {
    const struct ga_hdr *h = (const struct ga_hdr *)((const uint8_t *)ptr - GA_RZ);
    return (size_t)h->size;
}

GA_NOSAN static void galloc_release(struct aws_allocator *a, void *ptr) {
    (void)a;
    if (!ptr) return;
#ifdef GALLOC_PASSTHROUGH
    free(ptr);
    return;
#endif
    if (!galloc_is_live(ptr)) {
        ga.bad_release++;
        fprintf(stderr, "galloc: release of non-live pointer %p\n", ptr);
        abort();
    }
    struct ga_hdr *h = (struct ga_hdr *)((uint8_t *)ptr - GA_RZ);
    size_t size = (size_t)h->size, r = ga_round(size ? size : 1);
    if (ga.release_hook) ga.release_hook(ptr, size, ga.release_ud);
    h->magic = GA_MAGIC_FREE;
    GA_POISON(ptr, r);
    if (r / 16 < GA_CLASSES) {
        h->next_free = ga.free_small[r / 16];
        ga.free_small[r / 16] = h;
    } else {
        h->next_free = ga.free_big;
        ga.free_big = h;
    }
    ga.live_blocks--;
    ga.live_bytes -= size;
    ga.n_release++;
}

GA_NOSAN static void *galloc_realloc(struct aws_allocator *a, void *ptr, size_t oldsize, size_t newsize) {
    (void)oldsize;
#ifdef GALLOC_PASSTHROUGH
    return realloc(ptr, newsize ? newsize : 1);
#endif
    if (!ptr) return galloc_acquire(a, newsize);
    struct ga_hdr *h = (struct ga_hdr *)((uint8_t *)ptr - GA_RZ);
    size_t cur = (size_t)h->size;
    if (ga.realloc_mode == 1 && ga_round(newsize ? newsize : 1) == ga_round(cur ? cur : 1)) {
        GA_POISON(ptr, ga_round(cur ? cur : 1));
        GA_UNPOISON(ptr, newsize);
        for (size_t i = cur; i < newsize; ++i) ((uint8_t *)ptr)[i] = (uint8_t)(0xA5 ^ (i * 7)); /* deterministic tail */
        ga.live_bytes += newsize;
        ga.live_bytes -= cur;
        h->size = newsize;
        return ptr;
    }
    uint8_t *n = (uint8_t *)galloc_acquire(a, newsize);
    size_t c = cur < newsize ? cur : newsize;
    for (size_t i = 0; i < c; ++i) n[i] = ((uint8_t *)ptr)[i];
    galloc_release(a, ptr);
    return n;
}

static void *galloc_calloc(struct aws_allocator *a, size_t num, size_t size) {
    void *p = galloc_acquire(a, num * size);
    memset(p, 0, num * size);
    return p;
}

static struct aws_allocator galloc_allocator = {
    .mem_acquire = galloc_acquire,
    .mem_release = galloc_release,
    .mem_realloc = NULL,
    .mem_calloc = NULL,
    .impl = NULL,
};

/* mode: 0 no realloc callback, 1 in place when same rounded size, 2 always moves */
static struct aws_allocator *galloc_get(int realloc_mode, int with_calloc) {
    ga_init_once();
    ga.realloc_mode = realloc_mode;
    galloc_allocator.mem_realloc = realloc_mode ? galloc_realloc : NULL;
    galloc_allocator.mem_calloc = with_calloc ? galloc_calloc : NULL;
    return &galloc_allocator;
}

#endif /* GALLOC_H */
