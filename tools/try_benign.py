#!/usr/bin/env python3
"""
Run a property's check against an independently written BEHAVIOUR-PRESERVING change (the property still holds): the check
must stay quiet.  Any VIOLATION line or harness error here is a false alarm of the machinery and has to be repaired there.

  tools/try_benign.py <Cnn> <k> [--tier quick|thorough] --src /tmp/seed/outB-Cnn/k

Steps (scratch worktree of /repo outside /repo and /verif, removed afterwards):
  1. git worktree add --detach /tmp/bv-Cnn-k HEAD ; git apply patch.diff
  2. stock build + the pinned ctest suite must still pass with the change
  3. demo.c (if any) must exit 0 against the original AND against the changed tree
  4. VERIF_REPO=<worktree> ./check Cnn --tier T : must exit 0 without VIOLATION
Writes /verif/benign/Cnn-k/{patch.diff,demo.c,README.md,meta.json}.
"""
import json, os, re, shutil, subprocess, sys, time, hashlib

ROOT = os.path.dirname(os.path.dirname(os.path.abspath(__file__)))


def sh(cmd, **kw):
    return subprocess.run(cmd, shell=True, stdout=subprocess.PIPE, stderr=subprocess.STDOUT, text=True, errors="replace", **kw)


def main():
    a = sys.argv[1:]
    pid, k = a[0], a[1]
    tier = a[a.index("--tier") + 1] if "--tier" in a else "quick"
    src = a[a.index("--src") + 1]
    wt = "/tmp/bv-%s-%s" % (pid, k)
    out = os.path.join(ROOT, "benign", "%s-%s" % (pid, k))
    os.makedirs(out, exist_ok=True)
    for f in ("patch.diff", "demo.c", "README.md"):
        if os.path.exists(os.path.join(src, f)):
            shutil.copy(os.path.join(src, f), os.path.join(out, f))
    meta = {"property": pid, "change": k, "tier": tier, "ran": []}
    sh("git -C /repo worktree remove --force %s" % wt)
    sh("git -C /repo worktree add --detach %s HEAD" % wt)
    r = sh("git -C %s apply %s" % (wt, os.path.join(out, "patch.diff")))
    if r.returncode != 0:
        meta["status"] = "patch does not apply: " + r.stdout[-300:]
        json.dump(meta, open(os.path.join(out, "meta.json"), "w"), indent=1)
        print("%s-%s patch does not apply" % (pid, k))
        sh("git -C /repo worktree remove --force %s" % wt)
        return 2
    meta["files_changed"] = sh("git -C %s diff --stat" % wt).stdout.strip().splitlines()
    t0 = time.time()
    r = sh("%s/tools/repo_tests.sh %s %s/_build" % (ROOT, wt, wt))
    m = re.search(r"(\d+)% tests passed, (\d+) tests failed out of (\d+)", r.stdout)
    meta["ran"].append({"cmd": "stock cmake build + ctest -j8 in the changed worktree", "result": m.group(0) if m else r.stdout[-600:], "wall_s": round(time.time() - t0, 1)})
    meta["tests_pass_with_change"] = bool(m and m.group(2) == "0")
    demo = os.path.join(out, "demo.c")
    if os.path.exists(demo):
        if not os.path.exists("/repo/_build/libaws-c-common.a"):
            sh("%s/tools/repo_tests.sh /repo /repo/_build" % ROOT)
        res = {}
        for tag, tree in (("original", "/repo"), ("changed", wt)):
            exe = "/tmp/bv-demo-%s-%s-%s" % (pid, k, tag)
            c = sh("gcc -O1 -g -o %s %s -I%s/include -I%s/_build/generated/include %s/_build/libaws-c-common.a -lpthread -ldl -lm" % (exe, demo, tree, tree, tree))
            if c.returncode != 0:
                res[tag] = "compile failed: " + c.stdout[-300:]
                continue
            try:
                rr = subprocess.run([exe], stdout=subprocess.PIPE, stderr=subprocess.STDOUT, text=True, errors="replace", timeout=120)
                res[tag] = {"exit": rr.returncode, "tail": rr.stdout[-300:]}
            except subprocess.TimeoutExpired:
                res[tag] = {"exit": "timeout"}
            os.unlink(exe)
        meta["demo"] = res
        meta["demo_passes_both"] = all(isinstance(res.get(t), dict) and res[t].get("exit") == 0 for t in ("original", "changed"))
    t0 = time.time()
    env = dict(os.environ, VERIF_REPO=wt)
    r = subprocess.run([os.path.join(ROOT, "check"), pid, "--tier", tier], stdout=subprocess.PIPE, stderr=subprocess.STDOUT, text=True, errors="replace", env=env, cwd=ROOT)
    lines = r.stdout.splitlines()
    viol = [l for l in lines if l.startswith("VIOLATION")]
    sigs = [re.sub(r" witnesses=.*", "", l.strip())[4:] for l in lines if l.strip().startswith("sig=")]
    meta["check"] = {"cmd": "VERIF_REPO=%s ./check %s --tier %s" % (wt, pid, tier), "exit": r.returncode, "summary": lines[0][:300] if lines else "", "violations": len(viol),
                     "signatures": sigs[:12], "first_message": next((l.strip()[:600] for l in lines if l.strip().startswith("sig=")), ""), "tail": "\n".join(lines[-6:])[-900:] if r.returncode not in (0, 1) else "",
                     "wall_s": round(time.time() - t0, 1)}
    meta["quiet"] = r.returncode == 0 and not viol
    sh("git -C /repo worktree remove --force %s" % wt)
    sh("rm -rf %s" % wt)
    alt = os.path.join(ROOT, "build", "alt-" + hashlib.sha1(os.path.realpath(wt).encode()).hexdigest()[:10])
    shutil.rmtree(alt, ignore_errors=True)
    json.dump(meta, open(os.path.join(out, "meta.json"), "w"), indent=1)
    print("%s-%s tests_pass=%s demo_both=%s check_exit=%s quiet=%s :: %s" % (pid, k, meta.get("tests_pass_with_change"), meta.get("demo_passes_both"), r.returncode, meta["quiet"], "; ".join(sigs[:3])))
    return 0


if __name__ == "__main__":
    sys.exit(main())
