#!/usr/bin/env python3
"""Merge the human descriptions of the seeded changes into seeded/*/meta.json and write seeded/README.md."""
import json, os
ROOT = os.path.dirname(os.path.dirname(os.path.abspath(__file__)))
NOTES = {
 "C01-1": ("byte_buf.c s_aws_byte_buf_append_dynamic: secure variant zeroes the old block before copying `from`", "secure append that has to grow AND whose source aliases the destination (buffer appended to itself)"),
 "C01-2": ("byte_buf.c aws_byte_buf_advance: remaining-space test rewritten additively (wraps)", "non-empty buffer and a request in (SIZE_MAX-len, SIZE_MAX]: call succeeds, hands out a ~SIZE_MAX sub-buffer and moves len backwards"),
 "C02-1": ("hash_table.c aws_hash_iter_delete: limit adjustment `>=` became `>`", "two iterator deletions in one pass over a collision cluster that wraps the end of the slot array: an entry is visited twice"),
 "C02-2": ("lookup3.inl hashlittle2 byte-at-a-time branch: `length > 12` became `>= 12`", "byte-equal keys of length 12/24/36 at an odd vs an even address hash differently (aws_hash_byte_cursor_ptr / c_string)"),
 "C05-1": ("encoding_avx2.c vector base64 encode: zero-fill of the bounce vector hoisted out of the tail loop", "AVX2 path, length >= 25 with length mod 24 in 1..7 and non-zero data: padding group encodes stale bytes (non-canonical text)"),
 "C05-2": ("encoding_avx2.c vector base64 decode: main loop `len > 32` became `>= 32`", "AVX2 path, well-formed padded text whose length is a multiple of 32 is rejected"),
 "C06-1": ("priority_queue.c s_remove_node: re-sift skipped when the vacated slot is the new last slot", "remove by handle of slot len-2 in a heap of even length >= 6 whose last element is smaller than the parent of slot len-2; shows only after further pushes/pops"),
 "C06-2": ("array_list.c aws_array_list_mem_swap: slice loop drops the last full 128-byte slice", "element size an exact multiple of 128 (128, 256, 384) and any heap swap"),
 "C07-1": ("task_scheduler.c aws_task_scheduler_has_tasks: has_tasks only set when the heap minimum is < UINT64_MAX", "only remaining task scheduled at exactly UINT64_MAX: next-time query says no tasks, clean-up never invokes it"),
 "C07-2": ("priority_queue.c s_remove_node: invalidates the handle of the element moved into the hole instead of the removed one", "run-all/cancel removes a non-last heap element, the moved task needs no sift, then that task is cancelled: invoked CANCELED and later RUN again"),
 "C08-1": ("thread_scheduler.c s_thread_fn: idle wait uses the untimed condition wait", "idle scheduler and the last release landing between the thread's predicate check and its blocking: notify is lost, join never returns (deadlock)"),
 "C08-2": ("thread_scheduler.c s_thread_fn: re-checks should_exit right after swapping the hand-over queues and breaks", "release stores should_exit exactly between the queue swap and the new check: the swapped-out batch is dropped (task lost, cancellation node leaked)"),
 "C09-1": ("array_list.c aws_array_list_calc_necessary_size: checked index*size then unchecked + size", "set_at with index == SIZE_MAX/item_size: succeeds, writes before the storage, length becomes huge"),
 "C09-2": ("linked_list.inl aws_linked_list_swap_nodes: fourth re-link reads the live node instead of the snapshot", "swap_nodes(a, b) with b immediately BEFORE a: prev pointers self-loop (forward order still right)"),
 "C10-1": ("cbor.c s_cbor_encoder_write_type_only: position/remaining snapshot taken before the reserve", "encoder buffer exactly full (len == capacity) when an indefinite start / break / simple value is written: marker silently dropped (e.g. [_ bool x255 ])"),
 "C10-2": ("cbor.c aws_cbor_encoder_write_float: negative branch computes -1 - value in double", "integral doubles in [-2^63, -2^53): emitted negint is off by one"),
 "C11-1": ("json.c remove_from_object: existence check case sensitive, delete case-insensitive", "object holding two keys equal ignoring case (ETag, etag): remove(\"etag\") deletes ETag"),
 "C11-2": ("cJSON.c compare_double: tolerance gets an absolute floor of 1.0*DBL_EPSILON", "finite |d| < 1 needing 16-17 digits: printed with 15 digits, error beyond one part in 2^52"),
 "C12-1": ("xml_parser.c s_advance_to_closing_tag: `continue` moved inside the name-delimiter branch", "element X skipped/read as body containing, before its first </X>, a tag extending X's name and then a nested X: inner </X> taken as the outer one, siblings lost, parse still succeeds"),
 "C12-2": ("xml_parser.c s_load_node_decl: split list capacity taken from the attribute array (10) instead of the scratch array (11)", "element with exactly 10 attributes is rejected"),
 "C13-1": ("uri.c s_parse_authority IPv6 branch: port search length from the whole authority instead of the remaining cursor", "user-info + bracketed IPv6 host + no port (+ a ':' soon after): legal URI rejected / read past the copy"),
 "C13-2": ("uri.c aws_query_string_next_param: previous substring length rebuilt as key+1+value", "a pair without '=' directly followed by another pair: next pair loses its first byte or is dropped"),
 "C15-1": ("ring_buffer.c acquire_up_to empty-ring branch: head stored from requested_size instead of the clamped size", "up-to request larger than the ring on an empty ring: head past the end, later grants outside storage / overlapping"),
 "C15-2": ("ring_buffer.c acquire_up_to tail partial grant: `tail_space > minimum` became `>=`", "unwrapped ring, oldest buffer released so that tail offset == minimum: grant of minimum-1 bytes (0 bytes for minimum 1)"),
 "C16-1": ("clock.inl aws_timestamp_convert_u64: early return on saturated whole part, final add no longer saturating", "ticks whose whole seconds just fit and whose sub-second part pushes the sum past 2^64: result wraps instead of saturating"),
 "C16-2": ("math.gcc_builtin.inl aws_ctz_u64 uses the 32-bit builtin", "non-zero argument whose low 32 bits are zero (2^33..2^63)"),
 "C17-1": ("memtrace.c s_trace_mem_realloc: wrapped realloc before untrack(old)", "thread A's realloc moves and frees address P, thread B is handed P before A untracks: bytes stay counted for ever, count one short"),
 "C17-2": ("memtrace.c s_alloc_tracer_untrack: fetch_sub replaced by load / saturating sub / store", "another thread's track lands between the load and the store of a release: its bytes are lost while live"),
 "C18-1": ("linked_hash_table.c put: list node captures the key before an equal-but-distinct key replaces it", "overwrite with an equal key that is a different object, later eviction of that entry: eviction hashes the dead key, cache exceeds max"),
 "C18-2": ("lifo_cache.c put: `!node->prev` guard rewritten with aws_linked_list_begin", "LIFO cache with max_items == 1 and two different keys: nothing evicted"),
 "C19-1": ("date_time.c RFC 822 offset digits parsed with strtol base 0 (octal)", "offset hour or minute field 08 or 09 (+0800, +0930 ...)"),
 "C19-2": ("date_time.c ISO 8601 basic long format uses %G (ISO week-based year)", "instants on Dec 29-31 / Jan 1-3 where the ISO week year differs from the calendar year (0.47% of days)"),
 "C20-1": ("posix/thread.c aws_thread_launch: managed count incremented at the top, roll-back after the cpu-pinning retry", "managed thread with a cpu_id pthread_create refuses (retry path): one thread counted twice, join-all never reaches zero"),
 "C20-2": ("posix/thread.c aws_thread_launch: managed count incremented only after pthread_create returns", "managed parent launches a managed child while another thread is in join-all; child finishes and is joined before the parent's increment: join-all returns while the parent still runs"),
 "C01-3": ("byte_buf.c aws_byte_buf_secure_zero wipes len instead of capacity", "buffer whose len was reset below bytes written earlier (append secret, reset(false), append less), then any secure wipe / clean_up_secure"),
 "C01-4": ("byte_buf.c s_aws_byte_buf_append_dynamic: required capacity computed from len instead of capacity", "append_dynamic with len < capacity and from->len > 2*capacity - len: new block too small, heap overflow, len > capacity"),
 "C02-3": ("hash_table.c aws_hash_table_remove (no out-param): key destructor gets the caller's lookup key", "table with a key destructor, remove() through an equal key that is a different object"),
 "C02-4": ("hash_table.c s_safe_eq_check: only the first argument is NULL-checked", "NULL key stored, then a non-NULL key whose hash code equals the NULL key's fixed code (42) probes onto it: user equality function called with NULL"),
 "C03-3": ("allocator_sba.c s_sba_alloc_from_bin: bin lock dropped around the page allocation, page_cursor overwritten without re-check", "two threads allocating from the same pageless size class inside that window: one page orphaned, bytes_active/bytes_reserved lose it"),
 "C03-4": ("allocator_sba.c s_page_bind no longer zeroes alloc_count", "a new page landing on memory written before (large block written and released, then small allocations): page dropped while a block is live / never returned"),
 "C04-3": ("uri.c aws_byte_buf_append_decoding_uri: reserve_relative became reserve", "destination already holding data: decoded text written past the capacity (len > capacity)"),
 "C04-4": ("encoding_avx2.c decode(): 24-byte store widened to two 16-byte lane stores", "AVX2 decode of > 32 characters with len%32 in {4,8,12} into an exactly sized output: 1-7 bytes past the buffer"),
 "C05-3": ("encoding.c aws_utf8_decoder_update: local state copy written back without `min`", "overlong sequence whose lead byte arrives in an earlier update call than its last continuation byte: accepted (chunking-dependent verdict)"),
 "C05-4": ("encoding.c portable base64 decode: sentinel allowed in digits 3/4 of every quantum", "portable path, '=' at offset 2 or 3 of a non-final quantum (Zg==Zg==): accepted, garbage bytes"),
 "C06-3": ("priority_queue.c s_swap: index rewrite of the handle landing in slot b nested under `if (*bp_a)`", "mixed queue: an element with a handle rises past one without: its handle keeps a stale index, remove() takes out another element"),
 "C06-4": ("priority_queue.c aws_priority_queue_clear: invalidation loop stops at the first slot without a handle", "mixed queue with a handle-less element before a handled one, clear(), regrow: stale handle still 'in queue' and removes a new element"),
 "C07-3": ("task_scheduler.c aws_task_run clears the scheduled flag AFTER the callback", "task re-schedules itself (future) from its own callback, is later cancelled: CANCELED but stays in the heap and runs again"),
 "C07-4": ("priority_queue.c push_ref: sift-up before the handle's index is set", "timed task scheduled earlier than its heap parent (sifts up), not moved again, then cancelled: another task is cancelled instead"),
 "C08-3": ("ref_count.c aws_ref_count_release re-reads the counter instead of using fetch_sub's result", "two owners releasing concurrently (A 2->1, B 1->0, both re-read 0): shutdown runs twice (use-after-free / second join never returns)"),
 "C08-4": ("thread_scheduler.c s_thread_fn: run_all moved before the processing of collected cancellations", "timed task already handed over, cancel queued, and its time passes before the next queue collection: RUN although cancelled while pending"),
 "C09-3": ("array_list.c aws_array_list_mem_swap: slice count (item_size-1)/SLICE", "aws_array_list_swap on element sizes 128 / 256"),
 "C09-4": ("linked_list.inl aws_linked_list_swap_contents: b->tail.prev not updated", "swap_contents with a non-empty first list, then any tail-side operation on the second list"),
 "C10-3": ("cbor.c consume_next_whole_data_item indefinite case: peek in front of the loop dropped (do/while)", "skipping an EMPTY indefinite array/map/string (9F FF ...): its break is eaten as a child, following siblings swallowed"),
 "C10-4": ("libcbor streaming.c case 0x7A calls the byte_string callback", "text strings of 65536..2^32-1 bytes decode with type BYTES"),
 "C11-3": ("cJSON.c cJSON_Duplicate: first child's prev (tail pointer) set from the exhausted source iterator", "duplicate a tree, then append to a non-empty container OF THE DUPLICATE: add reports success, value lost"),
 "C11-4": ("cJSON.c ensure(): growth 2 x current length instead of 2 x needed", "a single string longer than the current print buffer (e.g. 600 bytes within the first 256 output bytes): heap overflow / output does not re-parse"),
 "C12-3": ("xml_parser.c aws_xml_parse: preamble statement length measured before the cursor is advanced to the statement", "preamble statement preceded by more bytes than follow it before the root's '<' (newline before <!DOCTYPE>): first child dispatched as root"),
 "C12-4": ("xml_parser.c s_advance_to_closing_tag: name_open buffer shrunk to MAX_NAME_LEN", "element with a name of exactly 256 bytes, skipped / read as body, containing a child with an end tag"),
 "C13-3": ("uri.c builder size estimate: value.len + 1 only for non-empty values", "query parameter list with >= 2 empty-valued params and no spare bytes from the port: tail of the URI silently dropped"),
 "C13-4": ("uri.c s_encode_cursor_to_buffer: reserve only when capacity < 3*len (ignores buffer->len)", "encoding into a non-empty buffer whose total capacity is >= 3*len but whose free room is not: write past capacity"),
 "C14-3": ("log_channel.c foreground channel: mutex_lock became mutex_try_lock (result unused)", "two threads in the same foreground channel's send at once: writer entered concurrently, foreign unlock"),
 "C14-4": ("logging.c no-alloc logger: early return on a short fwrite skips the unlock", "one failed write (ENOSPC/EPIPE) and then one more log call: blocks for ever"),
 "C15-3": ("ring_buffer.c acquire wrapped branch: tail re-loaded and space recomputed after a failed fit", "wrapped ring, request larger than the tail gap and than end-head, and the releaser frees the upper and lower buffers between the two tail loads: grant outside storage"),
 "C15-4": ("ring_buffer.c acquire empty branch: `>` became `>=`", "idle ring of N bytes refuses acquire(N)"),
 "C16-3": ("clock.inl convert_u64 remainder rule: divisibility tested against floor(old/new)", "remainder requested, new < old, old not a multiple of new but a multiple of floor(old/new) (24 MHz -> 10 MHz)"),
 "C16-4": ("math.fallback.inl aws_mul_u64_saturating: `>` became `>=`", "portable variant only, a == floor(MAX/b) exactly with b not a divisor of MAX"),
 "C17-3": ("memtrace.c aws_mem_tracer_dump: mutex released before the collected records are listed", "another thread releases a block while the dump is listing: dump reads freed records (data race, no lock/atomic in the window)"),
 "C17-4": ("memtrace.c s_trace_mem_release: wrapped release before untrack", "thread B is handed the recycled address between A's free and A's untrack: count one short, bytes stay counted"),
 "C18-3": ("lru_cache.c put: evict-if-full moved before the insert", "full LRU cache, put of a key already present that is not the LRU entry: an entry that did not overflow is evicted"),
 "C18-4": ("linked_hash_table.c move_node_to_end: early return compares with back() instead of end()", "lookup hitting exactly the second-most-recent entry is not promoted: wrong victim later"),
 "C19-3": ("date_time.c new calendar validation calls the leap-year rule with tm_year (1900-biased)", "any text for 29 Feb of a year divisible by 400 is rejected"),
 "C19-4": ("date_time.c numeric zero offsets no longer mark the time as UTC", "RFC 822 text with +0000 / -0000 in a process whose zone is not UTC: read as local time"),
 "C20-3": ("thread_shared.c join_all: timeout check moved after the pending list is taken, `break` skips the join of that list", "join timeout configured, >= 2 managed threads, timeout firing after one parked itself: thread never joined, count never reaches zero"),
 "C20-4": ("thread_shared.c decrement: notify only when the count becomes 1", "two threads inside join_all at once: the second waiter is never woken"),
 "C03-1": ("allocator_sba.c s_sba_free_to_bin: empty-page release only when the class has a working page (page_cursor)", "a page empties while its class has carved an exact multiple of its per-page capacity (no partially carved page): the empty page is retained, more than one page per class stays reserved"),
 "C03-2": ("allocator_sba.c s_sba_alloc_from_bin: room check `>=` became `>`", "32-byte class only (usable page space is an exact multiple of the chunk): at the 127th live block the page is neither retired nor reused; bytes_active/bytes_reserved under-report"),
 "C04-1": ("libcbor streaming.c claim_bytes: bounds test rewritten additively (wraps)", "definite-length byte/text string whose 8-byte length is >= 2^64-9 (5B FF..FF): accepted, view of ~2^64 bytes outside the input"),
 "C04-2": ("xml_parser.c s_advance_to_closing_tag: the byte after a found \"<name\" is read before checking it precedes the closing tag", "node skipped / read as body whose closing tag is present and the document ends exactly with \"<name\" of a later same-name element: one-byte read past the input"),
 "C14-1": ("logging.c no-alloc logger: the 8 KiB line buffer made static (shared by all threads; formatting is outside the lock)", "two threads inside the no-alloc logger's log() at once: lines torn, duplicated or lost"),
 "C14-2": ("log_formatter.c s_advance_and_clamp_index: `>=` became `>`", "exactly one message length (line ends exactly on the last usable byte): two NULs, no newline"),
}
rows = []
d = os.path.join(ROOT, "seeded")
for name in sorted(os.listdir(d)):
    mp = os.path.join(d, name, "meta.json")
    if not os.path.exists(mp):
        continue
    m = json.load(open(mp))
    what, needs = NOTES.get(name, ("", ""))
    if what:
        m["change"] = what
        m["needs_to_manifest"] = needs
    m.setdefault("written_by", "a fresh sub-agent given only the property text and a scratch worktree (nothing from /verif)")
    json.dump(m, open(mp, "w"), indent=1)
    c = m.get("check", {})
    rows.append("| %s | %s | %s | %s | %s | %s | %s |" % (name, m.get("change", "?"), m.get("needs_to_manifest", "?"), "451/451" if m.get("tests_pass_with_change") else "NO",
                                                     "yes" if m.get("demo_discriminates") else "no", ("**caught** (%s)" % m.get("caught_by_tier", m.get("tier"))) if m.get("caught") else "**MISSED**",
                                                     "<br>".join(c.get("signatures", [])[:3])))
open(os.path.join(d, "README.md"), "w").write(
    "# Seeded property-breaking changes\n\nEach directory holds one change written by a fresh sub-agent that saw only the property text and a scratch worktree "
    "(never /verif): `patch.diff`, its demonstration `demo.c`, its `README.md`, and `meta.json` (what I ran to confirm it: pinned test suite still green with the change, "
    "demo exits 0 on the original and non-zero on the changed tree, and the verdict of `./check <Cnn>` run against the changed tree).  Regenerate with `tools/try_seed.py` + `tools/seed_notes.py`.\n\n"
    "| seed | change | needs to manifest | tests with change | demo discriminates | check | first signatures |\n|---|---|---|---|---|---|---|\n" + "\n".join(rows) + "\n")
print("\n".join(r[:150] for r in rows))
