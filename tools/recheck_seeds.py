#!/usr/bin/env python3
"""Re-run the property checks against every recorded seeded change (seeded/*/patch.diff) and every recorded benign change
(benign/*/patch.diff) without repeating the stock build / ctest / demo steps: a regression run for the machinery itself.
usage: recheck_seeds.py [--only C03,C14] [--jobs 3] [--benign-only|--seeded-only]
Prints one line per change; exit 1 if a seed recorded as caught is now missed or a benign change now raises an alarm."""
import concurrent.futures, hashlib, json, os, re, shutil, subprocess, sys
ROOT = os.path.dirname(os.path.dirname(os.path.abspath(__file__)))
a = sys.argv[1:]
only = set(a[a.index("--only") + 1].split(",")) if "--only" in a else None
jobs = int(a[a.index("--jobs") + 1]) if "--jobs" in a else 3


def sh(cmd):
    return subprocess.run(cmd, shell=True, stdout=subprocess.PIPE, stderr=subprocess.STDOUT, text=True)


def one(kind, name):
    pid = name.split("-")[0]
    d = os.path.join(ROOT, kind, name)
    wt = "/tmp/rc-%s-%s" % (kind, name)
    sh("git -C /repo worktree remove --force %s" % wt)
    sh("git -C /repo worktree add --detach %s HEAD" % wt)
    r = sh("git -C %s apply -3 %s" % (wt, os.path.join(d, "patch.diff")))
    if r.returncode != 0 or "with conflicts" in r.stdout:
        sh("git -C /repo worktree remove --force %s" % wt)
        return (kind, name, "patch-does-not-apply", "")
    env = dict(os.environ, VERIF_REPO=wt)
    rr = subprocess.run([os.path.join(ROOT, "check"), pid], stdout=subprocess.PIPE, stderr=subprocess.STDOUT, text=True, env=env, cwd=ROOT)
    viol = [l for l in rr.stdout.splitlines() if l.startswith("VIOLATION")]
    sigs = [re.sub(r" witnesses=.*", "", l.strip())[4:] for l in rr.stdout.splitlines() if l.strip().startswith("sig=")]
    sh("git -C /repo worktree remove --force %s" % wt)
    sh("rm -rf %s" % wt)
    shutil.rmtree(os.path.join(ROOT, "build", "alt-" + hashlib.sha1(os.path.realpath(wt).encode()).hexdigest()[:10]), ignore_errors=True)
    verdict = "caught" if rr.returncode == 1 and viol else ("quiet" if rr.returncode == 0 else "harness-error(%d)" % rr.returncode)
    return (kind, name, verdict, "; ".join(sigs[:2]))


work = []
for kind in ("seeded", "benign"):
    if ("--benign-only" in a and kind == "seeded") or ("--seeded-only" in a and kind == "benign"):
        continue
    dd = os.path.join(ROOT, kind)
    if not os.path.isdir(dd):
        continue
    for name in sorted(os.listdir(dd)):
        if not os.path.exists(os.path.join(dd, name, "patch.diff")):
            continue
        if only and name.split("-")[0] not in only:
            continue
        work.append((kind, name))
bad = 0
with concurrent.futures.ThreadPoolExecutor(jobs) as ex:
    for kind, name, verdict, sigs in ex.map(lambda w: one(*w), work):
        meta = {}
        try:
            meta = json.load(open(os.path.join(ROOT, kind, name, "meta.json")))
        except Exception:
            pass
        expect = ("caught" if meta.get("caught") else "missed-before") if kind == "seeded" else "quiet"
        flag = ""
        if verdict == "patch-does-not-apply" and meta.get("obsolete"):
            verdict = "obsolete (" + meta["obsolete"][:60] + "...)"
        elif kind == "seeded" and meta.get("caught") and verdict != "caught" and meta.get("tier") == "thorough":
            flag = "  (caught by the thorough tier only; this regression runs the quick tier)"
        elif kind == "seeded" and meta.get("caught") and verdict != "caught":
            flag = "  <-- REGRESSION"
            bad = 1
        if kind == "benign" and verdict != "quiet":
            flag = "  <-- FALSE ALARM"
            bad = 1
        print("%s %s: %s (recorded: %s) %s%s" % (kind, name, verdict, expect, sigs, flag), flush=True)
sys.exit(bad)
