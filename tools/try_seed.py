#!/usr/bin/env python3
"""
Confirm one independently written property-breaking change and run the property's check against it.

  tools/try_seed.py <Cnn> <k> [--tier quick|thorough] [--src /tmp/seed/out-Cnn/k] [--keep]

Steps (all in a scratch worktree of /repo outside /repo and /verif, removed afterwards):
  1. git worktree add --detach /tmp/sv-Cnn-k HEAD ; git apply patch.diff
  2. stock build + the pinned ctest suite must still pass with the change
  3. demo.c must exit 0 against the original tree (/repo, /repo/_build) and non-zero against the changed tree
  4. VERIF_REPO=<worktree> ./check Cnn --tier T : must exit 1 with VIOLATION lines; first replay file must REPRODUCE
Writes /verif/seeded/Cnn-k/{patch.diff,demo.c,README.md,meta.json}.
"""
import json, os, re, shutil, subprocess, sys, time

ROOT = os.path.dirname(os.path.dirname(os.path.abspath(__file__)))


def sh(cmd, **kw):
    return subprocess.run(cmd, shell=True, stdout=subprocess.PIPE, stderr=subprocess.STDOUT, text=True, errors="replace", **kw)


def main():
    a = sys.argv[1:]
    pid, k = a[0], a[1]
    tier = a[a.index("--tier") + 1] if "--tier" in a else "quick"
    src = a[a.index("--src") + 1] if "--src" in a else "/tmp/seed/out-%s/%s" % (pid, k)
    wt = "/tmp/sv-%s-%s" % (pid, k)
    out = os.path.join(ROOT, "seeded", "%s-%s" % (pid, k))
    os.makedirs(out, exist_ok=True)
    for f in ("patch.diff", "demo.c", "README.md"):
        if os.path.exists(os.path.join(src, f)):
            shutil.copy(os.path.join(src, f), os.path.join(out, f))
    meta = {"property": pid, "seed": k, "tier": tier, "ran": []}
    sh("git -C /repo worktree remove --force %s" % wt)
    r = sh("git -C /repo worktree add --detach %s HEAD" % wt)
    r = sh("git -C %s apply %s" % (wt, os.path.join(out, "patch.diff")))
    meta["ran"].append({"cmd": "git apply patch.diff (on /repo HEAD %s)" % sh("git -C /repo rev-parse --short HEAD").stdout.strip(), "rc": r.returncode, "out": r.stdout[-400:]})
    if r.returncode != 0:
        meta["status"] = "patch does not apply"
        json.dump(meta, open(os.path.join(out, "meta.json"), "w"), indent=1)
        print(json.dumps(meta, indent=1))
        sh("git -C /repo worktree remove --force %s" % wt)
        return 2
    meta["files_changed"] = sh("git -C %s diff --stat" % wt).stdout.strip().splitlines()
    # 2. stock build + tests
    t0 = time.time()
    r = sh("%s/tools/repo_tests.sh %s %s/_build" % (ROOT, wt, wt))
    m = re.search(r"(\d+)% tests passed, (\d+) tests failed out of (\d+)", r.stdout)
    meta["ran"].append({"cmd": "stock cmake build + ctest -j8 in the changed worktree", "result": m.group(0) if m else r.stdout[-600:], "wall_s": round(time.time() - t0, 1)})
    meta["tests_pass_with_change"] = bool(m and m.group(2) == "0")
    # 3. demo both ways
    demo = os.path.join(out, "demo.c")
    if os.path.exists(demo):
        if not os.path.exists("/repo/_build/libaws-c-common.a"):
            sh("%s/tools/repo_tests.sh /repo /repo/_build" % ROOT)
        res = {}
        for tag, tree in (("original", "/repo"), ("changed", wt)):
            exe = "/tmp/sv-demo-%s-%s-%s" % (pid, k, tag)
            c = sh("gcc -O1 -g -o %s %s -I%s/include -I%s/_build/generated/include %s/_build/libaws-c-common.a -lpthread -ldl -lm" % (exe, demo, tree, tree, tree))
            if c.returncode != 0:
                res[tag] = "compile failed: " + c.stdout[-300:]
                continue
            try:
                rr = subprocess.run([exe], stdout=subprocess.PIPE, stderr=subprocess.STDOUT, text=True, errors="replace", timeout=120)
                res[tag] = {"exit": rr.returncode, "tail": rr.stdout[-300:]}
            except subprocess.TimeoutExpired:
                res[tag] = {"exit": "timeout"}
            os.unlink(exe)
        meta["demo"] = res
        meta["demo_discriminates"] = isinstance(res.get("original"), dict) and res["original"].get("exit") == 0 and isinstance(res.get("changed"), dict) and res["changed"].get("exit") not in (0,)
    # 4. the check
    t0 = time.time()
    env = dict(os.environ, VERIF_REPO=wt)
    r = subprocess.run([os.path.join(ROOT, "check"), pid, "--tier", tier], stdout=subprocess.PIPE, stderr=subprocess.STDOUT, text=True, errors="replace", env=env, cwd=ROOT)
    lines = r.stdout.splitlines()
    viol = [l for l in lines if l.startswith("VIOLATION")]
    sigs = [re.sub(r" witnesses=.*", "", l.strip())[4:] for l in lines if l.strip().startswith("sig=")]
    meta["check"] = {"cmd": "VERIF_REPO=%s ./check %s --tier %s" % (wt, pid, tier), "exit": r.returncode, "summary": lines[0] if lines else "", "violations": len(viol),
                     "signatures": sigs[:12], "first_message": next((l.strip()[:500] for l in lines if l.strip().startswith("sig=")), ""), "wall_s": round(time.time() - t0, 1)}
    meta["caught"] = r.returncode == 1 and len(viol) > 0
    broken = [l[len("ASSUMPTION-BROKEN: "):][:300] for l in lines if l.startswith("ASSUMPTION-BROKEN")]
    if broken:
        meta["check"]["assumption_broken"] = broken[:3]  # sampled ThreadSanitizer twin: flags, never a verdict
    if viol:
        rp = viol[0].split("replay=")[1].strip()
        rr = subprocess.run([os.path.join(ROOT, "check"), "replay", rp], stdout=subprocess.PIPE, stderr=subprocess.STDOUT, text=True, errors="replace", env=env, cwd=ROOT)
        meta["check"]["replay"] = rr.stdout.strip().splitlines()[-1] if rr.stdout.strip() else "?"
    # clean up
    import build  # noqa
    sh("git -C /repo worktree remove --force %s" % wt)
    sh("rm -rf %s" % wt)
    import hashlib
    alt = os.path.join(ROOT, "build", "alt-" + hashlib.sha1(os.path.realpath(wt).encode()).hexdigest()[:10])
    shutil.rmtree(alt, ignore_errors=True)
    json.dump(meta, open(os.path.join(out, "meta.json"), "w"), indent=1)
    print("%s-%s tests_pass=%s demo_discriminates=%s caught=%s replay=%s :: %s" % (pid, k, meta.get("tests_pass_with_change"), meta.get("demo_discriminates"), meta["caught"], meta["check"].get("replay"), "; ".join(sigs[:3]) + (" [flagged: " + meta["check"]["assumption_broken"][0][:120] + "]" if meta["check"].get("assumption_broken") else "")))
    return 0


if __name__ == "__main__":
    sys.path.insert(0, os.path.join(ROOT, "engine"))
    sys.exit(main())
