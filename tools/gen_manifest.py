#!/usr/bin/env python3
"""Regenerate /verif/MANIFEST.json from the table below (one place to edit)."""
import json, os

ROOT = os.path.dirname(os.path.dirname(os.path.abspath(__file__)))

MC = "model_checking"
EX = "exploration"
ESX = "explicit-state model checking of the implementation: breadth-first search over operation histories of the real code, canonical-state de-duplication, reference-model oracle on every transition"
BEE = "bounded exhaustive enumeration (odometers, no sampling) of every input of a stated shape, run on the real code under AddressSanitizer against an independent reference"
VSX = "stateless model checking of the implementation: every thread interleaving of a small driver up to a preemption/deviation bound under a controlled scheduler (link-time interposed pthread/clock, schedule points at atomics)"

CHECKS = {
 "C01": (MC, "ESX+BEE", ESX + "; plus " + BEE + " for number parsing",
         "every history over a broad byte-buffer/cursor alphabet (capacities 0..6, 3-symbol data, boundary lengths up to SIZE_MAX, self-append and cursor-into-destination aliasing) stepped against a plain reference buffer; failed operations compared byte-for-byte with the pre-state; secure variants checked through the allocator's release hook",
         "bounded capacities/alphabets; hash compaction; OOM paths unreachable (aws_mem_acquire aborts)", "5 C01"),
 "C02": (MC, "ESX+BEE", ESX + "; plus " + BEE + " for the library's hash/equality pairs",
         "every history of put/create/find/remove/iterate-with-delete/foreach/clear/swap/move on the real table under harness-chosen hash functions (constant, zero, last-slot cluster, identity ...) to a fixpoint per configuration, against an association list, destructor deltas and white-box slot invariants",
         "<=5 live keys, listed hash functions and initial sizes; hash compaction", "5 C02"),
 "C03": (MC, "ESX+VSX", ESX + " (white-box over allocator_sba.c with an owned page pool, and with pages + control block + parent blocks in one unscrubbed first-fit heap across destroy/new); " + VSX + " for the multi-threaded allocator",
         "every acquire/calloc/realloc/release history up to the depth bound on two page sizes with pattern, disjointness, alignment and accounting oracles; every history of small / large (written or left unwritten) acquires, releases and destroy+new in a shared heap that keeps what freed pages leave behind; plus every interleaving (bound 2-4) of 2-3 threads on a multi-threaded allocator",
         "bounded slots/sizes/depth; sequentially consistent interleavings only", "5 C03"),
 "C04": (EX, "BEE", BEE,
         "every byte string up to a per-parser length over the bytes the parser distinguishes, plus 1-2 edit neighbourhoods of well-formed templates, through XML (all callback policies), JSON, CBOR, URI/query/percent-decoding, date-time, base64/hex/UTF-8, UUID, IPv4/IPv6 and number parsing in exact-size heap blocks under ASan with a watchdog; views handed back must lie inside the input",
         "inputs longer than the stated bounds are represented by templates only", "5 C04"),
 "C05": (EX, "BEE", BEE + ", both CPU paths in one binary",
         "all base64 texts of length 4/8 over a 9-symbol alphabet, every byte value at every position of the final quantum and of a 44-character text, every encode length 0..99 x every byte value in the last 3 positions x capacities/start lengths, all 2-character hex strings, all UTF-8 byte strings <=4 over 21 boundary bytes under all chunkings; shipped (AVX2) and portable implementation compared with a table-free RFC 4648 reference",
         "exhaustive within the enumerated shapes; portable path = second compilation of source/encoding.c from the working tree without USE_SIMD_ENCODING", "5 C05"),
 "C06": (MC, "ESX", ESX,
         "every history of push, push-with-handle, pop, top, remove by live/dead handle, clear up to the depth bound for item sizes 1..300 and dynamic/static storage, against a reference multiset and heap/back-pointer invariants",
         "<=5 elements, 5 handles, priorities {0,1,2}; hash compaction", "5 C06"),
 "C07": (MC, "ESX", ESX,
         "every history of schedule-now/future, cancel, run-all(time), has-tasks, clean-up with re-entrant task behaviours as outer configurations, against a reference scheduler (exactly once per hand-over, never early, order within a run)",
         "3-4 tasks, 5 timestamps, listed behaviours; hash compaction", "5 C07"),
 "C08": (MC, "VSX", VSX,
         "seven client/scheduler-thread scenarios (schedule-now/future, cancel race, release with queued work, timed run) explored over every interleaving within 2-3 (quick) / 3-5 (thorough) preemptions+timer deviations on a virtual clock; oracle: exactly-once per hand-over, RUN only on the scheduler thread and not early, release returns after the thread exited, allocator balance zero, no deadlock/livelock",
         "sequentially consistent interleavings at lock/condvar/atomic/create/join points; weak memory orderings not modelled; DESIGN section 6 reading for cancel-after-run", "5 C08"),
 "C09": (MC, "ESX", ESX,
         "every history over array-list operations (item sizes 1..300, dynamic and static storage, overflow indices) and linked-list operations (two lists, node pool, swap/move/insert) against reference sequences; linked list to a fixpoint",
         "length <=5, listed sizes; hash compaction", "5 C09"),
 "C10": (EX, "BEE", BEE,
         "head-width boundary integers, ~540 boundary doubles and an exponent x mantissa grid, strings across buffer growth points, all encoder call sequences <=4 (5 thorough) from a 22-call alphabet, all nestings <=5-6 nodes; decoded with the real decoder in four styles and with an independent RFC 8949 reader",
         "values off the grids are not enumerated", "5 C10"),
 "C11": (EX, "BEE+ESX", BEE + "; " + ESX + " for object/array access sequences",
         "boundary doubles (incl. DBL_MAX neighbours, 17-digit values), all strings <=3 over 10 special symbols as values and keys, every BMP escape and surrogate pairs, all trees <=4-5 nodes, through API and text, compact and formatted, re-read by the library and by an independent strict RFC 8259 reader; add/get/has/remove sequences to a fixpoint",
         "number tolerance: exact when <=15 significant digits else one part in 2^52 (bound included); compare running time is observed, not judged", "5 C11"),
 "C12": (EX, "BEE", BEE,
         "all ordered element trees <=4-5 elements over names {a,ab,b} with attributes/text/preamble x every assignment of callback actions (descend, body, skip, abort) to reachable nodes, plus limit documents; callback log compared with the generating tree",
         "explicit start/end tags only (DESIGN section 6)", "5 C12"),
 "C13": (EX, "BEE", BEE,
         "the full product of URI components (20k-700k URIs) parsed and rebuilt, all byte strings <=2 (3 thorough: all 2^24) through both percent-encoders and the decoder against a table-free reference and Python urllib, all query strings <=6-10 over {a b = &}",
         "RFC-ambiguous scheme-less host:/path strings are not generated; '/' '?' ':' '@' inside queries not generated", "5 C13"),
 "C14": (MC, "BEE+VSX", BEE + " for line format, truncation and level gating; " + VSX + " for the background/foreground channels and the pipeline logger",
         "every total_length 1..300 x message length x level x subject x date format through aws_format_standard_log_line, the no-alloc logger across its 8 KiB buffer, all 4-call level-gate programs; plus every interleaving (bound 2-4) of 1-2 sender threads, the background thread and clean-up with a recording writer",
         "sequentially consistent interleavings; timestamps parsed not predicted", "5 C14"),
 "C15": (MC, "ESX+VSX", ESX + " (sequential, fixpoint per ring size 1..12); " + VSX + " for acquirer x releaser",
         "all single-thread histories of acquire/acquire_up_to/release to a fixpoint per ring size; plus every interleaving (bound 2-3) of an acquirer and a releaser thread at the atomic loads/stores of head and tail for all size programs <=3 over a 6-symbol alphabet",
         "sequentially consistent interleavings: acquire/release/relaxed orderings are not modelled", "5 C15"),
 "C16": (EX, "BEE", BEE + ", three implementation variants (builtin, x86-64 asm, portable) at three optimisation levels side by side",
         "all operand pairs from the boundary set B(w) for add/mul/sub x checked/saturating x u32/u64/size, all unary helpers, min/max, all unit pairs and frequency pairs of timestamp conversion, against unsigned __int128 arithmetic",
         "operands off the boundary grid are not enumerated (solver territory); arm64/MSVC variants not buildable here", "5 C16"),
 "C17": (MC, "ESX+VSX", ESX + " (24 tracer/parent configurations to fixpoints); " + VSX + " for 2-4 threads on one tracer",
         "every acquire/calloc/realloc/release/dump history over 3-4 slots for all trace levels and parent realloc/calloc modes against a reference live set; plus every interleaving (bound 2-4) of threads sharing one tracer over an address-reusing parent",
         "sequentially consistent interleavings; concurrent observers are only bounded, equality demanded at quiescence", "5 C17"),
 "C18": (MC, "ESX", ESX,
         "every history of put/find/find-and-move-to-back/remove/clear on the linked hash table and of put/find/remove/clear/use-lru/get-mru on FIFO/LIFO/LRU caches (capacities 1..3, twin keys, destructors) to a fixpoint against a reference ordered map and eviction policy",
         "4 keys, 3 values; hash compaction", "5 C18"),
 "C19": (EX, "BEE", BEE,
         "first/last second of every month (every day, thorough) 1970..9999 plus six full days, through all six text forms and three parse modes; all offsets, designators, fractions, separators; against independent civil-date arithmetic",
         "TZ=UTC only; as_nanos judged only while it fits 64 bits", "5 C19"),
 "C20": (MC, "VSX", VSX,
         "six launch/finish/join scenarios (2-3 managed threads, managed launching managed, join-all while running, joinable and managed threads with at-exit callbacks) over every interleaving within 2-3 (quick) / 3-5 (thorough) preemptions; oracle: ran once with its argument, callbacks LIFO on the thread before join returns, every managed thread pthread_join()ed and count zero after join-all, allocator balance zero, no deadlock/livelock",
         "sequentially consistent interleavings at lock/condvar/create/join points; no join timeout configured", "5 C20"),
}


def main():
    have = sorted(d for d in os.listdir(os.path.join(ROOT, "harness")) if os.path.exists(os.path.join(ROOT, "harness", d, "spec.py")))
    enabled = [l.strip() for l in open(os.path.join(ROOT, "tools", "claimed.txt")) if l.strip() and not l.startswith("#")]
    checks, na = [], []
    for pid in sorted(CHECKS):
        level, engine, technique, text, note, ref = CHECKS[pid]
        if pid in enabled and pid in have:
            checks.append({
                "property_id": pid, "quick_cmd": "./check %s --tier quick" % pid, "thorough_cmd": "./check %s --tier thorough" % pid,
                "evidence_file": "evidence/%s.json" % pid, "replay_cmd_template": "./check replay {path}", "engine": engine,
                "level_claimed": {"category": level, "text": text, "design_ref": ref},
                "level_note": note, "technique": technique})
        else:
            na.append({"property_id": pid, "reason": "check not finished yet in this round (harness under construction); the property has a bounded exhaustive formulation, see DESIGN.md section " + ref})
    m = {
        "version": 1,
        "setup_cmd": "./check setup",
        "hooks": {
            "guard": "AWS_C_COMMON_VERIF",
            "enable": "no source hooks: schedule points come from link-time --wrap of pthread_*/clock_gettime/nanosleep and a force-included header over the __atomic_* builtins (DESIGN.md section 4.4); white-box access by #include of library .c files into harness translation units; the guard is nominal and unused",
            "baseline_off_cmd": "cmake -G Ninja -S /repo -B /repo/_build -DCMAKE_BUILD_TYPE=RelWithDebInfo && cmake --build /repo/_build && ctest --test-dir /repo/_build -j8 --timeout 900",
            "source_commits": [], "add_only": True},
        "engines": [
            {"name": "ESX", "path": "engine/esx.h", "serves_properties": [p for p in enabled if "ESX" in CHECKS[p][1]], "kind_free_text": "explicit-state BFS over operation histories of the real implementation, canonical-state de-duplication, replay-from-reset, forked ASan workers"},
            {"name": "BEE", "path": "engine/bee.h", "serves_properties": [p for p in enabled if "BEE" in CHECKS[p][1]], "kind_free_text": "bounded exhaustive enumeration of inputs (odometers, no randomness) in forked ASan workers with per-item crash/hang capture"},
            {"name": "VSX", "path": "engine/vsx.h", "serves_properties": [p for p in enabled if "VSX" in CHECKS[p][1]], "kind_free_text": "controlled scheduler (wrapped pthread/clock, atomics hooks, futex baton, virtual clock) + preemption-bounded exhaustive explorer, fork per execution"},
        ],
        "checks": checks,
        "not_applicable": na,
        "notes": "All checks run the real library rebuilt from /repo's working tree (cmake+ninja variants under /verif/build). Known findings and repaired defects: known_findings.txt. VERIF_SEED is accepted and ignored: nothing that decides a property is random.  The free-running ThreadSanitizer twins (harness names ending in -tsan) are the one sampled pass: they check the proviso of the controlled scheduler (no unsynchronised access between schedule points, no hidden shared state between callers that share nothing), print ASSUMPTION-BROKEN lines, mark the run as not exhaustive and never produce a verdict.",
    }
    json.dump(m, open(os.path.join(ROOT, "MANIFEST.json"), "w"), indent=1)
    print("claimed:", " ".join(c["property_id"] for c in checks))
    print("not yet:", " ".join(n["property_id"] for n in na))


if __name__ == "__main__":
    main()
