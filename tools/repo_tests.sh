#!/bin/bash
# Build a source tree of aws-c-common (default /repo) with the stock configuration and run the pinned ctest suite.
# usage: repo_tests.sh [srcdir] [builddir]
SRC=${1:-/repo}
BLD=${2:-$SRC/_build}
set -e
cmake -G Ninja -S "$SRC" -B "$BLD" -DCMAKE_BUILD_TYPE=RelWithDebInfo >/dev/null
cmake --build "$BLD" 2>&1 | tail -3
ctest --test-dir "$BLD" -j8 --timeout 900 2>&1 | tail -6
