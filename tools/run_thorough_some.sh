#!/bin/bash
cd /verif
for p in "$@"; do
  s=$(date +%s)
  ./check $p --tier thorough 2>&1 | grep -v "^  sig"
  echo "$p thorough wall=$(( $(date +%s) - s ))s rc=${PIPESTATUS[0]}"
done
