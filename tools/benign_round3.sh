#!/bin/bash
# usage: benign_round2.sh C11 C12 ...   -> runs try_benign for /tmp/seed/outB3-Cnn/{1,2} as changes 6 and 7
cd /verif
for p in "$@"; do
  for k in 1 2; do
    if [ -f /tmp/seed/outB3-$p/$k/patch.diff ]; then
      tools/try_benign.py $p $((k+5)) --src /tmp/seed/outB3-$p/$k 2>&1 | tail -1
    fi
  done
done
