#!/bin/bash
# usage: benign_round.sh C11 C12 ...   -> runs try_benign for /tmp/seed/outB-Cnn/{1,2,3}
cd /verif
for p in "$@"; do
  for k in 1 2 3; do
    if [ -f /tmp/seed/outB-$p/$k/patch.diff ]; then
      tools/try_benign.py $p $k --src /tmp/seed/outB-$p/$k 2>&1 | tail -1
    fi
  done
done
