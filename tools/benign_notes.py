#!/usr/bin/env python3
"""Write benign/README.md from benign/*/meta.json and the first lines of each change's README."""
import json, os, re
ROOT = os.path.dirname(os.path.dirname(os.path.abspath(__file__)))
d = os.path.join(ROOT, "benign")
rows = []
for name in sorted(os.listdir(d)):
    mp = os.path.join(d, name, "meta.json")
    if not os.path.exists(mp):
        continue
    m = json.load(open(mp))
    title = ""
    rp = os.path.join(d, name, "README.md")
    if os.path.exists(rp):
        for ln in open(rp):
            ln = ln.strip().lstrip("#").strip()
            if ln:
                title = re.sub(r"\s+", " ", ln)[:220]
                break
    files = "; ".join(f.split("|")[0].strip() for f in m.get("files_changed", [])[:-1])
    c = m.get("check", {})
    rows.append("| %s | %s | %s | %s | %s | %s |" % (name, title.replace("|", "/"), files, "451/451" if m.get("tests_pass_with_change") else "NO",
                                                "yes" if m.get("demo_passes_both") else "-", "quiet" if m.get("quiet") else "**ALARM** " + "; ".join(c.get("signatures", [])[:2])))
open(os.path.join(d, "README.md"), "w").write(
    "# Behaviour-preserving changes (false-alarm test)\n\nEach directory holds one change written by a fresh sub-agent that saw only the property text and a scratch worktree "
    "(never /verif) and was asked for a legitimate maintenance change that KEEPS the property true while changing internals or behaviour the property leaves open: "
    "`patch.diff`, its demonstration `demo.c` (passes before and after), its `README.md` (why the property still holds) and `meta.json` (pinned suite still green, "
    "verdict of `./check <Cnn>` against the changed tree: it must stay quiet).  `tools/try_benign.py`, `tools/recheck_seeds.py --benign-only`.\n\n"
    "| change | what | files | tests | demo passes both | check |\n|---|---|---|---|---|---|\n" + "\n".join(rows) + "\n")
print(len(rows), "rows;", sum(1 for r in rows if "ALARM" in r), "alarms")
