#!/bin/bash
# usage: seed_round3.sh C11 C12 ...   -> runs try_seed for out3-Cnn/1 and /2 as seeds 5 and 6
cd /verif
for p in "$@"; do
  for k in 1 2; do
    if [ -f /tmp/seed/out3-$p/$k/patch.diff ]; then
      tools/try_seed.py $p $((k+4)) --src /tmp/seed/out3-$p/$k 2>&1 | tail -1
    fi
  done
done
