#!/bin/bash
# usage: seed_round2.sh C11 C12 ...   -> runs try_seed for out2-Cnn/1 and /2 as seeds 3 and 4
cd /verif
for p in "$@"; do
  for k in 1 2; do
    if [ -f /tmp/seed/out2-$p/$k/patch.diff ]; then
      tools/try_seed.py $p $((k+2)) --src /tmp/seed/out2-$p/$k 2>&1 | tail -1
    fi
  done
done
