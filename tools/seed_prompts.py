#!/usr/bin/env python3
"""Write the prompt of seeding round N for every property into /tmp/seed/out<N>-Cnn/ (PROMPT.txt, PROPERTY.txt).
usage: seed_prompts.py N <repo-commit>"""
import json, os, sys, re, subprocess
ROOT = os.path.dirname(os.path.dirname(os.path.abspath(__file__)))
rnd = int(sys.argv[1]); commit = sys.argv[2]
src = open(os.path.join(ROOT, "tools", "seed_notes.py")).read()
ns = {}
exec(src[src.index("NOTES = {"):src.index("rows = []")], ns)
NOTES = ns["NOTES"]
base = open(os.path.join(ROOT, "tools", "seed_prompt_base.txt")).read()  # the round-independent part of every prompt
props = [json.loads(l) for l in open(os.path.join(ROOT, "properties.jsonl"))]
EXTRA = """

ROUND %(rnd)d.  %(n)d changes for this property have ALREADY been written by others; do NOT repeat them or close variations (same function AND same kind of slip).  They were:
%(prev)s
%(focus)s
(Reminder of the previous round's wording, for orientation only:) This round wants changes in places the earlier ones did NOT touch.  Read the property's anchored mechanisms again and pick from: (e) a rarely used entry point or variant of the mechanism (the _ref / _cursor / _dynamic / _static / secure / _up_to / _many / _n / reverse / const variants, the portable fallback next to the optimised path, the path taken only for NULL / zero-length / maximum-length arguments); (f) an interaction between TWO objects (copy, swap, move, append one into the other, the same object passed as both arguments, a view into storage that is then reallocated); (g) an environment answer the code must cope with (the allocator returning the same address again or a differently aligned one, realloc moving or not moving, a short or failing write/read, a clock value at a boundary, the time zone, locale-independent formatting); (h) state that is cached or derived (a count, a flag, a cached minimum, a saved length, a hash code, a depth counter) getting out of step with the data it summarises on ONE uncommon path; (i) for properties about threads: an ordering between two client threads and the background/worker thread that needs at most two context switches at places you name.  Use a different category for each of your two changes and state it in the README.  The change must survive the ENTIRE existing test suite; prefer a bug that needs three or more steps to show over one that shows on the first call.  Avoid bugs whose only effect is a leak and ones that merely delete an argument check.
Write your results into /tmp/seed/out%(rnd)d-%(id)s/1 and /tmp/seed/out%(rnd)d-%(id)s/2.  Your worktree /tmp/seed/%(id)s may be at an older commit: first run `git -C /tmp/seed/%(id)s checkout -q --detach %(commit)s` (it must end up clean at that commit)."""
for p in props:
    pid = p["id"]
    out = "/tmp/seed/out%d-%s" % (rnd, pid)
    os.makedirs(out + "/1", exist_ok=True); os.makedirs(out + "/2", exist_ok=True)
    prop_txt = "/tmp/seed/out-%s/PROPERTY.txt" % pid  # text rendering of the property (statement, quantifier, why tests can't, anchors), nothing else
    open(out + "/PROPERTY.txt", "w").write(open(prop_txt).read() if os.path.exists(prop_txt) else json.dumps(p, indent=1))
    prev = ["  * %s — trigger: %s" % NOTES[k] for k in sorted(NOTES) if k.startswith(pid + "-")]
    t = base.replace("/tmp/seed/out-@ID@", out).replace("@ID@", pid)
    focus = ""
    if rnd >= 5:
        focus = ("ROUND %d FOCUS (this overrides the category list further down).  The earlier rounds have been through off-by-ones, reordered updates, half-updated refusal paths, second-life boundaries, "
                 "rarely used entry points and two-thread orderings.  What is wanted now are bugs that leave every LOCAL sanity check intact: (j) the data structure stays internally consistent (all its own "
                 "validity predicates and invariants hold) but the ANSWER is wrong - the wrong one of two equal-looking elements, a stale but well-formed value, a result for a neighbouring input; "
                 "(k) a bug in the interplay of two modules the property is anchored in (one module's output is legal on its own, the other misreads it); (l) a bug that exists only in what the compiler "
                 "makes of the code at the shipped optimisation level or only in one of the build variants the headers select between (a dead store, an aliasing assumption, a variant-specific inline, an "
                 "integer promotion), and is invisible when the same source is compiled -O0 / in the default variant; (m) behaviour that is wrong only for inputs at least 4 operations / 64 bytes / 3 nesting "
                 "levels / 3 participants away from anything the existing tests and the obvious small cases reach.  State in the README which letter each change is, and why small exhaustive enumeration "
                 "(all histories of up to 5 operations over 3 keys, all inputs of up to 4 symbols, 2 threads with 2 preemptions) would NOT find it.  ") % rnd
    if rnd >= 6:
        focus = ("ROUND %d FOCUS (this overrides the category list further down).  Five rounds have been through off-by-ones, reordered updates, refusal paths, second lives, rarely used entry points, "
                 "two-thread orderings, wrong-answer-with-intact-invariants, optimiser / build-variant effects and far-away inputs.  Wanted now: (n) RE-ENTRANCY - a user callback the property's mechanism "
                 "invokes (destructor, comparator, hash / equality function, task function, traversal or code-point callback, log writer, at-exit callback, allocator) legitimately calls back into the same "
                 "object or module while the operation is in progress, and the library's state at that moment is not what the documentation allows the callback to rely on; (o) DEGENERATE BUT LEGAL "
                 "CONFIGURATIONS - a capacity / limit / element size / count parameter of 0 or 1 or its maximum, an empty key / value / string / document, an optional argument left NULL, combined with a "
                 "LATER perfectly normal operation (the degenerate call itself may well succeed); (p) A SHARED HELPER OUTSIDE THE ANCHORED FILES - change a utility the anchored module calls (byte cursor / "
                 "byte buf helpers, array list, string, math, clock, error handling / thread-local last error, allocator wrappers, linked list, hash table under a cache) so that the helper's own tests still "
                 "pass and only the way the anchored module uses it breaks the property; (q) DRIFT - state that is right after every single operation but drifts over many (a counter that wraps or saturates, "
                 "a garbage / tombstone count, a growth policy, a free list, an index never reset, a high-water mark) so that the property fails only after 20 or more operations of a repeating pattern.  "
                 "Use two different letters for your two changes, state them in the README, and say why exhaustive enumeration of all histories of up to 6 operations / all inputs of up to 5 symbols / 2-3 "
                 "threads with 2 preemptions would NOT find it.  ") % rnd
    if rnd >= 7:
        focus = ("ROUND %d FOCUS (this overrides the category list further down).  Six rounds have covered off-by-ones, reordered updates, refusal paths, second lives, rare entry points, two-thread orderings, "
                 "wrong answers with intact invariants, optimiser / build-variant effects, far-away inputs, re-entrant callbacks, degenerate configurations, shared helpers and drift.  Wanted now: "
                 "(r) TWO INSTANCES - state that should be per object (or per call, or per thread) becomes shared: a local scratch buffer / counter / cursor / flag hoisted to module (static) scope or into a "
                 "shared parent object, a cached pointer keyed too coarsely, so that ONE object (or one thread) behaves perfectly and the bug needs two live objects of the same kind (or two threads each with "
                 "its own object) whose operations interleave, even sequentially: A.op1, B.op1, A.op2; (s) LIFE-CYCLE EDGES the headers allow - clean-up of a zero-initialised or already cleaned-up object, "
                 "clean-up followed by a new init of the same storage, an object moved / swapped / copied as a struct and then used through the new location, a handle or task or node reused after its first life "
                 "ended in a DIFFERENT way than the earlier rounds tried, statically initialised objects (the *_STATIC_INIT / init_static forms) next to dynamically initialised ones; "
                 "(t) WHO CALLS - the operation is issued from a different thread than the one that created or last used the object (thread-local caches, thread ids captured at init, errno / last-error of the "
                 "wrong thread), or from inside an at-exit / clean-up path of another object.  Use two different letters for your two changes, state them in the README, and say why enumeration of all histories "
                 "of up to 6 operations on ONE object / all inputs of up to 5 symbols / 2-3 threads with 2 preemptions on ONE shared object would NOT find it.  ") % rnd
    if rnd >= 8:
        focus = ("ROUND %d FOCUS (this overrides the category list further down, and this round wants ONE change only: write it into directory 1 and leave directory 2 empty; be quick - build once, run the "
                 "test suite once with the change).  Seven rounds have covered off-by-ones, reordered updates, refusal paths, second lives, rare entry points, two-thread orderings, wrong answers with intact "
                 "invariants, build variants, far-away inputs, re-entrant callbacks, degenerate configurations, shared helpers, drift, two instances, life-cycle edges and who-calls.  Wanted now, pick one: "
                 "(u) A FAULT AT ONE POINT - the allocator (or a write, or a clock read, or thread creation) fails at exactly the N-th call inside a multi-step operation, and the library either leaves the "
                 "object half-updated or reports success / failure wrongly, although the same fault one call earlier or later is handled correctly; (v) TWO FEATURES TOGETHER - two options, modes or entry points "
                 "of the mechanism that are each correct alone (and each tested alone) disagree when used on the same object in one history.  State the letter in the README.  ") % rnd
    t += EXTRA % dict(rnd=rnd, n=len(prev), prev="\n".join(prev), id=pid, commit=commit, focus=focus)
    open(out + "/PROMPT.txt", "w").write(t)
print("ok")
