#!/bin/bash
# usage: seed_round.sh N C11 C12 ...   -> runs try_seed for /tmp/seed/outN-Cnn/1 and /2 as seeds 2N-1 and 2N
cd /verif
N=$1; shift
for p in "$@"; do
  for k in 1 2; do
    if [ -f /tmp/seed/out$N-$p/$k/patch.diff ]; then
      tools/try_seed.py $p $((2*N-2+k)) --src /tmp/seed/out$N-$p/$k 2>&1 | tail -1
    fi
  done
done
