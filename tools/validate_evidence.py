#!/opt/veriftools/pyvenv/bin/python
"""Validate MANIFEST.json and every evidence file against the schemas in /root/.vp (needs jsonschema: tooling venv)."""
import json, os, sys
import jsonschema
ROOT = os.path.dirname(os.path.dirname(os.path.abspath(__file__)))
ms = json.load(open("/root/.vp/MANIFEST.schema.json"))
es = json.load(open("/root/.vp/EVIDENCE.schema.json"))
m = json.load(open(os.path.join(ROOT, "MANIFEST.json")))
jsonschema.validate(m, ms)
bad = 0
for c in m["checks"]:
    f = os.path.join(ROOT, c["evidence_file"])
    if not os.path.exists(f):
        print("missing", f); bad += 1; continue
    e = json.load(open(f))
    try:
        jsonschema.validate(e, es)
        assert e["level"] == c["level_claimed"]["category"], "level mismatch"
        print("ok", c["property_id"], e["tier"], e["level"], "violations=%s" % e.get("violations"))
    except Exception as x:
        print("INVALID", f, str(x)[:300]); bad += 1
sys.exit(1 if bad else 0)
