#!/usr/bin/env python3
"""Print the table of DESIGN 0.4 from the summary lines of ./check runs.
usage: size_table.py quick.log thorough.log [more-thorough.log ...]   (later files win)"""
import re, sys
ENG = {"C01": "ESX+BEE", "C02": "ESX+BEE", "C03": "ESX+BEE+VSX", "C04": "BEE", "C05": "BEE", "C06": "ESX", "C07": "ESX", "C08": "VSX", "C09": "ESX", "C10": "BEE",
       "C11": "BEE+ESX", "C12": "BEE", "C13": "BEE", "C14": "BEE+VSX", "C15": "ESX+BEE+VSX", "C16": "BEE", "C17": "ESX+VSX", "C18": "ESX", "C19": "BEE", "C20": "VSX"}
rows = {}
for f in sys.argv[1:]:
    for l in open(f, errors="replace"):
        m = re.match(r"(C\d\d) tier=(\w+) level=\w+ wall=([\d.]+)s exhaustive=(\w+)(.*)", l)
        if not m:
            continue
        pid, tier, wall, exh, rest = m.groups()
        kv = dict(re.findall(r"(\w+)=(\d+)", rest))
        rows.setdefault(pid, {})[tier] = (float(wall), exh == "True", kv)


def num(n):
    n = int(n)
    for div, suf in ((10**9, "G"), (10**6, "M"), (10**3, "k")):
        if n >= div:
            return ("%.1f" % (n / div)).rstrip("0").rstrip(".") + " " + suf
    return str(n)


def cell(t):
    if not t:
        return "-"
    wall, exh, kv = t
    parts = []
    for k, name in (("evaluations", "evaluations"), ("states", "states"), ("transitions", "transitions"), ("schedules", "schedules")):
        if k in kv:
            parts.append("%s %s" % (num(kv[k]), name))
    w = "%d s" % round(wall) if wall < 120 else "%.0f min" % (wall / 60)
    return ", ".join(parts) + ", " + w + ("" if exh else " (a cap was hit: not exhaustive)")


print("| prop | engine(s) | quick | thorough |\n|---|---|---|---|")
for pid in sorted(rows):
    print("| %s | %s | %s | %s |" % (pid, ENG.get(pid, "?"), cell(rows[pid].get("quick")), cell(rows[pid].get("thorough"))))
