#!/bin/bash
# runs every property's thorough tier sequentially, logging wall time and verdict lines
cd /verif
for p in C01 C02 C03 C04 C05 C06 C07 C08 C09 C10 C11 C12 C13 C14 C15 C16 C17 C18 C19 C20; do
  s=$(date +%s)
  ./check $p --tier thorough 2>&1 | grep -v "^  sig"
  echo "$p thorough wall=$(( $(date +%s) - s ))s rc=${PIPESTATUS[0]}"
done
